"""C14 - SEARCH returns exactly the matching messages (table-agreement clauses only).

 R14.1 search-op tables agree: constructor sites <-> SearchOp <-> _match_* <-> argument keys
 R14.2 every RFC 3501 search key has a parser
 R14.3 desugaring table (UN*, NEW, OLD) and flag spellings
 R14.4 SEARCH and FETCH read each attribute through the same accessor; UID SEARCH returns ctx.uid()
 R14.5 comparison operators of the date/size matchers; Boolean connectives
"""
from __future__ import annotations

import ast

from ..astutil import body_walk, call_name, call_recv, calls_in, kwarg, norm, strip_await
from ..loader import AnalysisError
from .common import parmap, where

PROP = "C14"
EXPLANATION = (
    "Only table agreement and operator shape are static here. (R14.1) every IMAPSearch(<op>, **kw) construction in "
    "parse.py uses a constant op that is a SearchOp member, a _match_<op> method exists for every member, and the keyword "
    "names passed cover the keys _match_<op> reads from self.args; (R14.2) each of the 36 RFC 3501 search keys (frozen "
    "from the RFC, not from the source) has a _p_srchkey_<key> method or is a set/parenthesis form; (R14.3) UNANSWERED, "
    "UNDELETED, UNDRAFT, UNFLAGGED, UNKEYWORD, UNSEEN are NOT of their positive parser, NEW is AND(RECENT, UNSEEN), OLD is "
    "NOT RECENT, and the positive flag keys carry the system-flag spelling that constants.py maps; (R14.4) flags, size, "
    "internal date and UID are read by SEARCH and by FETCH through the same SearchContext accessors, Mailbox.search hands "
    "the sequence number (index+1) to the context and returns ctx.uid() for UID SEARCH; (R14.5) the comparison operator of "
    "each date/size matcher is the RFC one (BEFORE <, ON ==, SINCE >=, SENTBEFORE <, SENTON ==, SENTSINCE >=, LARGER >, "
    "SMALLER <) on the value the RFC names (internal date vs Date: header, calendar date as written), NOT negates, AND uses "
    "all(), OR uses any(). Deliberately weak: the truth of a predicate on message content is not decided."
)
RULE_TEXT = "instances: each constructor site, each SearchOp member, each RFC key, each desugared key, each accessor pair, each matcher operator (all finite tables, compared completely)"
ASSUMPTIONS = ["RFC 3501 section 6.4.4 key list frozen in asv/rules/c14.py", "not decided: predicate truth on real content; Boolean laws on values; time-zone arithmetic"]
LEVEL_TEXT = (
    "Static table agreement (parser constructors <-> SearchOp <-> matchers <-> argument keys <-> RFC key list) and "
    "operator-shape checks of the matchers. Exhaustive over these finite tables; predicate truth on contents is not decided."
)
LEVEL_NOTE = "Weak by design: decides table agreement and operator shape, not SEARCH results. Trusted: CPython ast; RFC 3501 key list."
TECHNIQUE = "finite table agreement + operator-shape check"
DESIGN_REF = "DESIGN.md section 3 / C14"

RFC_KEYS = [
    "all", "answered", "bcc", "before", "body", "cc", "deleted", "draft", "flagged", "from", "header", "keyword",
    "larger", "new", "not", "old", "on", "or", "recent", "seen", "sentbefore", "senton", "sentsince", "since", "smaller",
    "subject", "text", "to", "uid", "unanswered", "undeleted", "undraft", "unflagged", "unkeyword", "unseen",
]
NEG = {"unanswered": "answered", "undeleted": "deleted", "undraft": "draft", "unflagged": "flagged", "unkeyword": "keyword", "unseen": "seen"}
FLAGKEYS = {"answered": r"\Answered", "deleted": r"\Deleted", "draft": r"\Draft", "flagged": r"\Flagged", "recent": r"\Recent", "seen": r"\Seen"}
OPS = {
    "before": ("Lt", "internal_date"), "on": ("Eq", "internal_date"), "since": ("GtE", "internal_date"),
    "sentbefore": ("Lt", "date_header"), "senton": ("Eq", "date_header"), "sentsince": ("GtE", "date_header"),
    "larger": ("Gt", "msg_size"), "smaller": ("Lt", "msg_size"),
}


def _enum(p, mod, cname):
    ci = p.classes_by_mod.get(f"{mod}.{cname}")
    if ci is None:
        raise AnalysisError(f"anchor enum vanished: {mod}.{cname}")
    return {s.value.value: s.targets[0].id for s in ci.node.body if isinstance(s, ast.Assign) and isinstance(s.value, ast.Constant)}


def r14_1(ctx):
    p = ctx.p
    ctx.exhaustive_rules.update({"R14.1", "R14.2", "R14.3", "R14.5"})
    ops = _enum(p, "search", "SearchOp")
    sc = p.cls("IMAPSearch")
    # keys each matcher reads
    reads = {}
    for op in ops:
        m = sc.methods.get(f"_match_{op}")
        if m is None:
            ctx.bad("R14.1", "search", "IMAPSearch", f"_match_{op}", f"SearchOp.{ops[op]} has no _match_{op} method: match() raises AttributeError for it", 0)
            continue
        ctx.analysed(m)
        ks = set()
        for n in body_walk(m.node):
            if isinstance(n, ast.Subscript) and norm(n.value) == "self.args" and isinstance(n.slice, ast.Constant):
                ks.add(n.slice.value)
        reads[op] = ks
        ctx.ok("R14.1", where(m), f"matcher for {op!r} exists (reads {sorted(ks)})", nontrivial=False)
    n_sites = 0
    for fi in p.funcs_in("parse"):
        for c in calls_in(fi.node):
            if isinstance(c.func, ast.Name) and c.func.id == "IMAPSearch":
                n_sites += 1
                ctx.analysed(fi)
                if not (c.args and isinstance(c.args[0], ast.Constant) and c.args[0].value in ops):
                    ctx.bad("R14.1", fi.module, fi.qual, norm(c, 80), "IMAPSearch constructed with an op that is not a constant SearchOp value (BadSearchOp at parse time)", c.lineno)
                    continue
                op = c.args[0].value
                kws = {k.arg for k in c.keywords}
                need = reads.get(op, set())
                if need <= kws:
                    ctx.ok("R14.1", where(fi), f"IMAPSearch({op!r}, {', '.join(sorted(kws))}) provides every key its matcher reads")
                else:
                    ctx.bad("R14.1", fi.module, fi.qual, norm(c, 80), f"matcher _match_{op} reads {sorted(need - kws)} which this constructor does not pass (KeyError while searching)", c.lineno)
                # arity of search_key
                sk = kwarg(c, "search_key")
                if op == "or" and not (isinstance(sk, ast.Tuple) and len(sk.elts) == 2):
                    ctx.bad("R14.1", fi.module, fi.qual, norm(c, 80), "OR must carry exactly two search keys", c.lineno)
                if op == "not" and isinstance(sk, (ast.Tuple, ast.List)):
                    ctx.bad("R14.1", fi.module, fi.qual, norm(c, 80), "NOT must carry a single search key", c.lineno)
    ctx.floor("R14.1", n_sites, 30, "IMAPSearch constructor sites")
    return ops


def r14_2_3(ctx):
    p = ctx.p
    cls = p.cls("IMAPClientCommand")
    have = {m[len("_p_srchkey_"):]: fi for m, fi in cls.methods.items() if m.startswith("_p_srchkey_")}
    for k in RFC_KEYS:
        if k in have:
            ctx.ok("R14.2", "parse:IMAPClientCommand", f"RFC 3501 search key {k.upper()} has a parser", nontrivial=False)
        else:
            ctx.bad("R14.2", "parse", "IMAPClientCommand", f"_p_srchkey_{k}", f"the RFC 3501 search key {k.upper()} has no parser: `SEARCH {k.upper()}` is answered BAD (UnknownSearchKey)", 0)
    # positive flag keys
    for k, flag in FLAGKEYS.items():
        fi = have.get(k)
        if fi is None:
            continue
        ctx.analysed(fi)
        r = [s for s in body_walk(fi.node) if isinstance(s, ast.Return)]
        okv = len(r) == 1 and isinstance(r[0].value, ast.Call) and norm(r[0].value.func) == "IMAPSearch" and r[0].value.args[0].value == "keyword" and isinstance(kwarg(r[0].value, "keyword"), ast.Constant) and kwarg(r[0].value, "keyword").value == flag
        if okv:
            ctx.ok("R14.3", where(fi), f"{k.upper()} = keyword {flag}")
        else:
            ctx.bad("R14.3", fi.module, fi.qual, norm(r[0], 80) if r else k, f"{k.upper()} must be the keyword search for {flag}", fi.node.lineno)
    # negations
    for k, pos in NEG.items():
        fi = have.get(k)
        if fi is None:
            continue
        ctx.analysed(fi)
        r = [s for s in body_walk(fi.node) if isinstance(s, ast.Return)]
        okv = False
        if len(r) == 1 and isinstance(r[0].value, ast.Call) and norm(r[0].value.func) == "IMAPSearch" and r[0].value.args and isinstance(r[0].value.args[0], ast.Constant) and r[0].value.args[0].value == "not":
            sk = kwarg(r[0].value, "search_key")
            if isinstance(sk, ast.Call) and norm(sk.func) == f"self._p_srchkey_{pos}":
                okv = True
        if okv:
            ctx.ok("R14.3", where(fi), f"{k.upper()} = NOT {pos.upper()}")
        else:
            ctx.bad("R14.3", fi.module, fi.qual, norm(r[0], 80) if r else k, f"{k.upper()} must be NOT of the {pos.upper()} parser", fi.node.lineno)
    for k, want in (("new", ("and", ["recent", "unseen"])), ("old", ("not", ["recent"]))):
        fi = have.get(k)
        if fi is None:
            continue
        r = [s for s in body_walk(fi.node) if isinstance(s, ast.Return)]
        okv = False
        if len(r) == 1 and isinstance(r[0].value, ast.Call) and r[0].value.args and isinstance(r[0].value.args[0], ast.Constant) and r[0].value.args[0].value == want[0]:
            sk = kwarg(r[0].value, "search_key")
            elts = sk.elts if isinstance(sk, (ast.List, ast.Tuple)) else [sk]
            names = [norm(e.func).replace("self._p_srchkey_", "") for e in elts if isinstance(e, ast.Call)]
            okv = sorted(names) == sorted(want[1])
        if okv:
            ctx.ok("R14.3", where(fi), f"{k.upper()} = {want[0].upper()}({', '.join(x.upper() for x in want[1])})")
        else:
            ctx.bad("R14.3", fi.module, fi.qual, norm(r[0], 100) if r else k, f"{k.upper()} must be {want[0].upper()} of {want[1]}", fi.node.lineno)
    # top-level and parenthesised lists are AND; NOT / OR take sub-keys through _p_search_key
    ps = p.func("parse.IMAPClientCommand._p_search")
    if any(norm(c.func) == "IMAPSearch" and c.args[0].value == "and" and "_p_list_of(self._p_search_key)" in norm(c) for c in calls_in(ps.node) if isinstance(c.func, ast.Name)):
        ctx.ok("R14.3", where(ps), "juxtaposed keys are AND-ed")
    else:
        ctx.bad("R14.3", ps.module, ps.qual, "IMAPSearch('and', search_key=self._p_list_of(self._p_search_key))", "top-level search keys are no longer AND-ed", ps.node.lineno)
    pk = p.func("parse.IMAPClientCommand._p_search_key")
    from .common import pm_of
    pmk = pm_of(p, pk)
    if pmk.has("return IMAPSearch('and', search_key=search_key)") and pmk.has("msg_set = self._p_msg_set()\nreturn IMAPSearch('message_set', msg_set=msg_set)"):
        ctx.ok("R14.3", where(pk), "parenthesised list = AND; bare set = message_set")
    else:
        ctx.bad("R14.3", pk.module, pk.qual, "paren list / bare set", "parenthesised lists or bare sequence sets are no longer desugared to and / message_set", pk.node.lineno)


def r14_4(ctx):
    p = ctx.p
    sc = p.cls("IMAPSearch")
    fa = p.func("fetch.FetchAtt.fetch")
    ftxt = " ".join(norm(s, 4000) for s in fa.node.body)
    pairs = [
        ("flags", "self.ctx.sequences" in norm(sc.methods["_match_keyword"].node, 2000), "self.ctx.sequences" in ftxt),
        ("size", "self.ctx.msg_size()" in norm(sc.methods["_match_larger"].node, 1000) and "self.ctx.msg_size()" in norm(sc.methods["_match_smaller"].node, 1000), "ctx.msg_size()" in ftxt),
        ("internal date", all("self.ctx.internal_date()" in norm(sc.methods[m].node, 1000) for m in ("_match_before", "_match_on", "_match_since")), "self.ctx.internal_date()" in ftxt),
        ("uid", "self.ctx.uid()" in norm(sc.methods["_match_uid"].node, 1500), "self.ctx.uid()" in ftxt),
    ]
    for what, s_ok, f_ok in pairs:
        if s_ok and f_ok:
            ctx.ok("R14.4", "search:IMAPSearch / fetch:FetchAtt.fetch", f"{what}: SEARCH and FETCH read it through the same SearchContext accessor")
        else:
            ctx.bad("R14.4", "search" if not s_ok else "fetch", "IMAPSearch" if not s_ok else "FetchAtt.fetch", f"accessor for {what}", f"{'SEARCH' if not s_ok else 'FETCH'} no longer reads {what} through the shared SearchContext accessor: SEARCH by {what} can disagree with what FETCH shows", 0)
    # flag spelling mapped through flag_to_seq
    mk = sc.methods["_match_keyword"]
    if "flag_to_seq(self.args['keyword'])" in norm(mk.node, 2000):
        ctx.ok("R14.4", where(mk), "keyword is mapped with flag_to_seq before the sequence lookup")
    else:
        ctx.bad("R14.4", mk.module, mk.qual, "flag_to_seq(self.args['keyword'])", "flag keyword is compared without mapping it to its MH sequence name", mk.node.lineno)
    ms = p.func("mbox.Mailbox.search")
    from .common import pm_of
    pm = pm_of(p, ms)
    checks = [
        (pm.has("for idx, msg_key in enumerate(self.msg_keys):\n    ..."), "iterates every message of the mailbox in sequence order"),
        (pm.has("msg_seq_num = idx + 1"), "sequence number = index + 1"),
        (pm.has("seq_max = self.num_msgs") and pm.has("uid_max = self.uids[-1]"), "seq_max = message count, uid_max = last UID"),
        (pm.has("SearchContext(self, msg_key, msg_seq_num, seq_max, uid_max)"), "context gets (key, sequence number, seq_max, uid_max)"),
        (pm.has("results.append(msg_seq_num)"), "SEARCH returns sequence numbers"),
    ]
    for okv, what in checks:
        if okv:
            ctx.ok("R14.4", where(ms), what)
        else:
            ctx.bad("R14.4", ms.module, ms.qual, what, f"Mailbox.search lost: {what}", ms.node.lineno)
    uid_ok = pm.has("if uid_cmd:\n    uid = ctx.uid()\n    ...\n    results.append(uid)\nelse:\n    results.append(msg_seq_num)") or pm.has("if uid_cmd:\n    results.append(ctx.uid())\nelse:\n    results.append(msg_seq_num)")
    if uid_ok:
        ctx.ok("R14.4", where(ms), "UID SEARCH returns ctx.uid() of each match (mapped through the UID table)")
    else:
        ctx.bad("R14.4", ms.module, ms.qual, "if uid_cmd: results.append(ctx.uid())", "UID SEARCH no longer returns the UID of each matching message", ms.node.lineno)


def r14_5(ctx):
    p = ctx.p
    sc = p.cls("IMAPSearch")
    for op, (want, val) in OPS.items():
        m = sc.methods.get(f"_match_{op}")
        if m is None:
            continue
        from .common import pm_of
        sym = {"Lt": "<", "Gt": ">", "GtE": ">=", "LtE": "<=", "Eq": "=="}[want]
        arg = "self.args['date']" if "date" in val else "self.args['n']"
        if val == "internal_date":
            shapes = [f"v = self.ctx.internal_date().date()\nreturn v {sym} {arg}"]
        elif val == "date_header":
            shapes = [
                # (a Date: header that is not a date matches no SENT* key: the parse failure is caught, not propagated)
                f"msg = self.ctx.msg()\nif 'date' not in msg:\n    return False\ntry:\n    v = parsedate(msg['date']).date()\nexcept (TypeError, ValueError):\n    return False\nreturn v {sym} {arg}",
                f"msg = self.ctx.msg()\nif 'date' not in msg:\n    return False\ntry:\n    v = parsedate(msg['date']).date()\nexcept ValueError:\n    return False\nreturn v {sym} {arg}",
                f"msg = self.ctx.msg()\nif 'date' not in msg:\n    return False\ntry:\n    return parsedate(msg['date']).date() {sym} {arg}\nexcept (TypeError, ValueError):\n    return False",
                f"msg = self.ctx.msg()\nif 'date' not in msg:\n    return False\nv = parsedate(msg['date']).date()\nreturn v {sym} {arg}",
                f"msg = self.ctx.msg()\nif 'date' in msg:\n    v = parsedate(msg['date']).date()\n    return v {sym} {arg}\nreturn False",
                # the header lookup behind an Optional-returning helper (folded into the caller by asv/inline.py)
                f"msg = self.ctx.msg()\nv = parsedate(msg['date']).date() if 'date' in msg else None\nif v is None:\n    return False\nreturn v {sym} {arg}",
            ]
        else:
            shapes = [f"v = self.ctx.msg_size()\nreturn v {sym} {arg}"]
        via_helper = False
        if val == "date_header":
            # the header's day behind an Optional-returning helper of the class that the inliner does not fold (it has a try)
            body_ = [s_ for s_ in m.node.body if not (isinstance(s_, ast.Expr) and isinstance(s_.value, ast.Constant))]
            if body_ and isinstance(body_[0], ast.Assign) and isinstance(strip_await(body_[0].value), ast.Call):
                c0 = strip_await(body_[0].value)
                if isinstance(c0.func, ast.Attribute) and norm(c0.func.value) == "self" and not c0.args and not c0.keywords and c0.func.attr in sc.methods:
                    h = sc.methods[c0.func.attr]
                    hshapes = [
                        "msg = self.ctx.msg()\nif 'date' not in msg:\n    return None\ntry:\n    return parsedate(msg['date']).date()\nexcept (TypeError, ValueError):\n    return None",
                        "msg = self.ctx.msg()\nif 'date' not in msg:\n    return None\ntry:\n    return parsedate(msg['date']).date()\nexcept ValueError:\n    return None",
                        "msg = self.ctx.msg()\nif 'date' not in msg:\n    return None\nreturn parsedate(msg['date']).date()",
                    ]
                    if any(pm_of(p, h).has(x) for x in hshapes) and pm_of(p, m).has(f"v = self.{c0.func.attr}()\nif v is None:\n    return False\nreturn v {sym} {arg}"):
                        via_helper = True
        if via_helper or any(pm_of(p, m).has(sh) for sh in shapes):
            ctx.ok("R14.5", where(m), f"{op.upper()}: <{val}> {want} <argument>")
        else:
            ctx.bad("R14.5", m.module, m.qual, f"return <{val}> {sym} {arg}", f"{op.upper()} must compare the message's {val} with the argument using {want}: messages on the boundary are wrongly included/excluded (or the value compared is not this message's {val})", m.node.lineno)
    # ... and a header that cannot be parsed makes the message match no SENT* key, it does not abort the search of the whole
    # mailbox: parsedate() (email.utils.parsedate_to_datetime) raises ValueError for `Date: next tuesday`
    n_pd = 0
    for m in sc.methods.values():
        par_ = parmap(m)
        for c in calls_in(m.node):
            if call_name(c) != "parsedate":
                continue
            n_pd += 1
            cur, caught = c, False
            while cur in par_:
                up = par_[cur]
                if isinstance(up, ast.Try) and cur in up.body:
                    for h in up.handlers:
                        names = {"Exception"} if h.type is None else {norm(t).split(".")[-1] for t in (h.type.elts if isinstance(h.type, ast.Tuple) else [h.type])}
                        if names & {"ValueError", "Exception"} and not any(isinstance(x, ast.Raise) for st in h.body for x in ast.walk(st)):
                            caught = True
                cur = up
            if caught:
                ctx.ok("R14.5", where(m), "an unparsable Date: header is caught in the matcher (the message does not match)")
            else:
                ctx.bad("R14.5", m.module, m.qual, norm(c, 60), "parsedate() raises ValueError for a Date: header that is not a date and nothing in the matcher catches it: one such message and every search with this key fails for the whole mailbox (no SEARCH response)", c.lineno)
    ctx.floor("R14.5", n_pd, 1, "Date: header parses in the search class")
    # HEADER <field> <string>: every occurrence of the field is looked at (`msg[field]` / `msg.get(field)` is the first only)
    mh_ = sc.methods["_match_header"]
    msgv = {"self.ctx.msg()"} | {s_.targets[0].id for s_ in body_walk(mh_.node) if isinstance(s_, ast.Assign) and len(s_.targets) == 1 and isinstance(s_.targets[0], ast.Name) and norm(s_.value) == "self.ctx.msg()"}
    firsts = [x for x in ast.walk(mh_.node) if (isinstance(x, ast.Subscript) and norm(x.value) in msgv and not isinstance(x.slice, ast.Slice)) or (isinstance(x, ast.Call) and call_name(x) == "get" and norm(call_recv(x)) in msgv)]
    alls = [c for c in calls_in(mh_.node) if call_name(c) == "get_all" and norm(call_recv(c)) in msgv]
    if alls and not firsts:
        ctx.ok("R14.5", where(mh_), "HEADER: msg.get_all(<field>) - every occurrence of the field")
    else:
        ctx.bad("R14.5", mh_.module, mh_.qual, norm(firsts[0], 50) if firsts else "msg.get_all(header, [])", "HEADER looks at the first occurrence of the field only: a string in the second `Received:` line (any repeated field) is not found although TEXT finds the message", (firsts[0].lineno if firsts else mh_.node.lineno))
    mn = sc.methods["_match_not"]
    if any(isinstance(s, ast.Return) and isinstance(s.value, ast.UnaryOp) and isinstance(s.value.op, ast.Not) and "self.args['search_key'].match(self.ctx)" in norm(s.value) for s in body_walk(mn.node)):
        ctx.ok("R14.5", where(mn), "NOT negates its sub-key")
    else:
        ctx.bad("R14.5", mn.module, mn.qual, "return not await ...match(ctx)", "NOT no longer negates its sub-key", mn.node.lineno)
    for op, fn in (("and", "all"), ("or", "any")):
        m = sc.methods[f"_match_{op}"]
        from .common import pm_of
        pmm = pm_of(p, m)
        other = "any" if fn == "all" else "all"
        if pmm.has(f"if {fn}((x.result() for x in tasks)):\n    return True\nreturn False") and not pmm.has(f"{other}(...)") and pmm.has("for search_op in self.args['search_key']:\n    tasks.append(tg.create_task(search_op.match(self.ctx)))"):
            ctx.ok("R14.5", where(m), f"{op.upper()} = {fn}() over every sub-key")
        else:
            ctx.bad("R14.5", m.module, m.qual, f"{fn}(x.result() for x in tasks)", f"{op.upper()} no longer combines all of its sub-keys with {fn}()", m.node.lineno)
    # parsedate must keep the date as written in the header (no conversion to UTC before .date())
    pd = p.func("utils.parsedate")
    if any(call_name(c) == "astimezone" for c in calls_in(pd.node)):
        ctx.bad("R14.5", pd.module, pd.qual, "dt.astimezone(...)", "parsedate converts to another zone: SENTON/SENTBEFORE/SENTSINCE compare the UTC calendar day instead of the date written in the Date: header (RFC 3501: disregarding time and timezone)", pd.node.lineno)
    else:
        ctx.ok("R14.5", where(pd), "parsedate keeps the header's own calendar date (tz attached only when missing)")


def run(ctx):
    ctx.do(r14_1)
    ctx.do(r14_2_3)
    ctx.do(r14_4)
    ctx.do(r14_5)
    from . import c10
    ctx.do(c10.r10_4_units, modules=("mbox", "search"))
    from . import c16 as _c16
    ctx.do(_c16.r16_4b)  # TEXT / BODY search the same rendering whichever generator produced it
    from . import c15 as _c15
    ctx.do(_c15.r15_4)  # message-set keys denote what the set denotes everywhere
    ctx.do(c10.r10_2)  # a STORE is not admitted beside a running SEARCH
    ctx.do(c10.r10_1)  # the search walks the mailbox under its admission
    ctx.trust("frozen: RFC 3501 6.4.4 search key list; operator table BEFORE< ON== SINCE>= SENTBEFORE< SENTON== SENTSINCE>= LARGER> SMALLER<")
