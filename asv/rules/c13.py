"""C13 - MH tools and IMAP sessions see the same flags and messages.

 R13.1 .mh_sequences is rewritten after every flag change or message removal
 R13.2 all .mh_sequences I/O happens under the mailbox's mh_sequences_lock
 R13.3 who may write .mh_sequences
 R13.4 a lock region that re-reads the folder's sequences writes back the re-read (merged) object
 R13.5 new message keys are merged from the folder's file and appended, never inserted (with C02/C03)
"""
from __future__ import annotations

import ast

from .. import flow
from ..astutil import assigned_targets, body_walk, call_name, call_recv, calls_in, kwarg, norm, strip_await, walk_no_nested
from .common import in_lock, parmap, typer, env_of, where

PROP = "C13"
EXPLANATION = (
    "(R13.1) every function that changes a mailbox's in-memory sequences or removes message files reaches "
    "set_sequences_in_folder on that mailbox after its last such change on every normal path before returning, unless the "
    "folder itself is removed on that path (the helpers _help_* are checked to be called only from store under the lock; "
    "commit_to_db only prunes empty sequences); MH allocates max(key)+1, so a freed highest number is reused by the next "
    "delivery and the reconcile merges whatever the file says about a new key - stale entries are inherited; (R13.2) "
    "every call of get_sequences_from_folder / set_sequences_in_folder / MH.pack / MH.add lies inside `async with <same "
    "mailbox>.mh_sequences_lock`, directly or because every call site of the enclosing function does; (R13.3) "
    "MH.set_sequences is called only by set_sequences_in_folder; (R13.4) where a lock region re-reads the file "
    "(get_sequences_from_folder) and then writes, the object written is the one re-read, so entries an external agent added "
    "meanwhile survive; (R13.5) the reconcile takes the flags of new keys from the folder's file and appends the keys. "
    "Decides these clauses, not races with a real external process."
)
RULE_TEXT = "instances: each function mutating sequences / removing files; each .mh_sequences I/O call site; each re-read+write region"
ASSUMPTIONS = ["external MH agents only add messages (next free number) and touch `unseen`", "not decided: timing of announcements; races with a real external process"]
LEVEL_TEXT = (
    "Static must-pass-through(write-back), lock-context and who-may-write rules over every flag mutation and every "
    ".mh_sequences access: the file can disagree with IMAP only if a mutation is not followed by a rewrite, a rewrite "
    "happens outside the lock, or a rewrite discards what it re-read - all shapes of the code."
)
LEVEL_NOTE = "Structural clauses only; helper/exemption tables in asv/rules/c13.py. Trusted: CPython ast."
TECHNIQUE = "CFG must-pass-through(write-back) + lock-context summary + who-may-call"
DESIGN_REF = "DESIGN.md section 3 / C13"

HELPERS = {"_help_add_flag", "_help_remove_flag", "_help_replace_flags"}
WRITEBACK_EXEMPT = {
    "mbox.Mailbox.__init__": "constructor: empty sequences",
    "mbox.Mailbox.commit_to_db": "only deletes *empty* sequence entries (no flag changes)",
    "mbox.Mailbox._restore_from_db": "fills memory from the db / from the file itself (the create arm goes through _get_sequences_update_seen which writes when it modified)",
}


def seq_mutations(fi):
    """(node, objtext, kind) for mutations of <obj>.sequences and message-file removals in fi."""
    out = []
    for n in body_walk(fi.node):
        if isinstance(n, ast.Call):
            nm = call_name(n)
            r = call_recv(n)
            if nm in ("add", "discard", "remove", "update", "clear") and isinstance(r, ast.Subscript) and isinstance(r.value, ast.Attribute) and r.value.attr == "sequences":
                out.append((n, norm(r.value.value), "flag change"))
            elif nm in ("aremove",) and r is not None:
                b = norm(r)
                out.append((n, b[: -len(".mailbox")] if b.endswith(".mailbox") else b, "message file removed"))
            elif nm == "aclear" and r is not None:
                b = norm(r)
                out.append((n, b[: -len(".mailbox")] if b.endswith(".mailbox") else b, "all message files removed"))
            elif nm == "remove" and r is not None and norm(r).endswith(".mailbox") and n.args:
                b = norm(r)
                out.append((n, b[: -len(".mailbox")], "message file removed"))
            elif nm in HELPERS and r is not None:
                out.append((n, norm(r), "flag change (helper)"))
        elif isinstance(n, (ast.Assign, ast.AugAssign, ast.Delete)):
            for t in assigned_targets(n):
                base = t
                if isinstance(base, ast.Subscript):
                    base = base.value
                if isinstance(base, ast.Attribute) and base.attr == "sequences":
                    v = strip_await(getattr(n, "value", None)) if getattr(n, "value", None) is not None else None
                    if not isinstance(t, ast.Subscript) and isinstance(v, ast.Call) and call_name(v) in ("get_sequences_from_folder", "_get_sequences_update_seen"):
                        continue  # memory refreshed *from* the file: nothing to write back
                    out.append((n, norm(base.value), "sequences replaced" if not isinstance(t, ast.Subscript) else "sequence entry changed"))
    return out


def _stmt(node, fi):
    par = parmap(fi)
    while not isinstance(node, ast.stmt):
        node = par[node]
    return node


def r13_1(ctx):
    p = ctx.p
    n_fn = 0
    for fi in p.functions.values():
        if fi.module in ("hashers",):
            continue
        muts = seq_mutations(fi)
        if not muts:
            continue
        if fi.name in HELPERS:
            continue
        n_fn += 1
        ctx.analysed(fi)
        if fi.key in WRITEBACK_EXEMPT:
            ctx.ok("R13.1", where(fi), f"exempt: {WRITEBACK_EXEMPT[fi.key]}", nontrivial=False)
            continue
        g = ctx.cfg(fi)
        for obj in sorted({m[1] for m in muts}):
            wb = {
                n.id for n in g.nodes
                if n.ast is not None and n.kind in ("stmt", "return") and any(
                    call_name(c) == "set_sequences_in_folder" and norm(call_recv(c)) == obj for c in calls_in(n.ast)
                )
            }
            folder_gone = {n.id for n in g.nodes if n.ast is not None and n.kind == "stmt" and any(call_name(c) in ("remove_folder", "rmtree") for c in calls_in(n.ast))}
            # the file-removal in a rename-inbox loop applies to `inbox`; its sequences are rewritten at the end
            bad = None
            for m in muts:
                if m[1] != obj:
                    continue
                for nid in g.nodes_for(_stmt(m[0], fi)):
                    w = flow.escapes_without(g, nid, lambda n: n in wb or n in folder_gone, [g.exit])
                    ctx.paths_explored += 1
                    if w and bad is None:
                        bad = (m, w)
            if bad:
                m, w = bad
                ctx.bad(
                    "R13.1", fi.module, fi.qual, f"{obj}: {m[2]}: {norm(_stmt(m[0], fi), 80)}",
                    f"{m[2]} on {obj} and the function can return without {obj}.set_sequences_in_folder(...): .mh_sequences keeps "
                    "mentioning the old state (e.g. removed message numbers), so a later MH delivery that reuses a freed number "
                    "inherits those flags and MH tools see flags the IMAP sessions do not",
                    m[0].lineno, flow.fmt_path(g, w),
                )
            else:
                ctx.ok("R13.1", where(fi), f"{obj}: {len([m for m in muts if m[1] == obj])} change(s), each followed by a rewrite of .mh_sequences (or the folder is removed)")
    ctx.floor("R13.1", n_fn, 7, "functions changing sequences / removing message files")
    # helpers only called from store, inside the lock
    st = p.func("mbox.Mailbox.store")
    for fi in p.functions.values():
        for c in calls_in(fi.node):
            if call_name(c) in HELPERS:
                if fi.key == "mbox.Mailbox.store" and norm(call_recv(c)) in [norm(x) for x in in_lock(c, fi, "mh_sequences_lock")]:
                    ctx.ok("R13.1", where(fi), f"{call_name(c)} called from store() under mh_sequences_lock", nontrivial=False)
                else:
                    ctx.bad("R13.1", fi.module, fi.qual, norm(c, 80), "flag helper called outside store()'s locked region (its change is not written to .mh_sequences)", c.lineno)


def _callers(p, fi):
    t = typer(p)
    out = []
    for f2 in p.functions.values():
        for c in calls_in(f2.node):
            if call_name(c) == fi.name:
                cal = t.resolve_call(c, env_of(p, f2))
                if fi in cal or (not cal and isinstance(c.func, ast.Attribute)):
                    out.append((f2, c))
    return out


def r13_2(ctx):
    p = ctx.p
    n = 0
    memo = {}

    def held_at(fi, call, depth=0):
        """Is <recv>.mh_sequences_lock held at this call (directly or via all callers)?"""
        recv = call_recv(call)
        rtxt = norm(recv) if recv is not None else ""
        if rtxt.endswith(".mailbox"):
            rtxt = rtxt[: -len(".mailbox")]
        locks = [norm(x) for x in in_lock(call, fi, "mh_sequences_lock")]
        if rtxt in locks:
            return True, "directly inside the lock region"
        if rtxt == "self" and depth < 3:
            key = fi.key
            if key in memo:
                return memo[key]
            memo[key] = (False, "recursion")
            cs = _callers(p, fi)
            if cs and all(held_at(f2, c2, depth + 1)[0] for f2, c2 in cs):
                memo[key] = (True, f"every call site of {fi.qual} holds the lock ({len(cs)} site(s))")
            else:
                memo[key] = (False, f"a call site of {fi.qual} does not hold the lock")
            return memo[key]
        return False, "not inside `async with <same mailbox>.mh_sequences_lock`"

    for fi in p.functions.values():
        if fi.module not in ("mbox", "client", "pop3_client", "user_server"):
            continue
        for c in calls_in(fi.node):
            nm = call_name(c)
            r = call_recv(c)
            if nm in ("get_sequences_from_folder", "set_sequences_in_folder") or (nm in ("pack", "add") and r is not None and norm(r).endswith(".mailbox")):
                if fi.name in ("get_sequences_from_folder", "set_sequences_in_folder"):
                    continue
                n += 1
                ctx.analysed(fi)
                okv, why = held_at(fi, c)
                if okv:
                    ctx.ok("R13.2", where(fi), f"{norm(c.func)} @{c.lineno}: {why}")
                elif fi.key == "mbox._helper_rename_inbox" and nm == "add":
                    ctx.ok("R13.2", where(fi), f"{norm(c.func)}: destination mailbox was just created by this RENAME (exclusive admission on INBOX; no session can have it selected yet)", nontrivial=False)
                else:
                    ctx.bad("R13.2", fi.module, fi.qual, norm(c, 80), f".mh_sequences is read/written ({nm}) {why}: a concurrent task can interleave its own read-modify-write and one of the updates is lost", c.lineno)
    ctx.floor("R13.2", n, 12, ".mh_sequences I/O call sites")
    ctx.call_sites += n


def r13_3(ctx):
    p = ctx.p
    n = 0
    for fi in p.functions.values():
        for c in calls_in(fi.node):
            if call_name(c) == "set_sequences" and fi.module != "test":
                n += 1
                if fi.key == "mbox.Mailbox.set_sequences_in_folder":
                    ctx.ok("R13.3", where(fi), "MH.set_sequences only called by set_sequences_in_folder", nontrivial=False)
                else:
                    ctx.bad("R13.3", fi.module, fi.qual, norm(c, 80), "MH.set_sequences called outside set_sequences_in_folder (bypasses the lock assertion)", c.lineno)
    ctx.floor("R13.3", n, 1, "MH.set_sequences call sites")
    ssf = p.func("mbox.Mailbox.set_sequences_in_folder")
    gsf = p.func("mbox.Mailbox.get_sequences_from_folder")
    for fi in (ssf, gsf):
        if any(isinstance(s, ast.Assert) and "mh_sequences_lock.locked()" in norm(s.test) for s in body_walk(fi.node)):
            ctx.ok("R13.3", where(fi), "asserts the lock is held", nontrivial=False)
        else:
            ctx.bad("R13.3", fi.module, fi.qual, "assert self.mh_sequences_lock.locked()", "the run-time lock assertion was removed", fi.node.lineno)


def r13_4(ctx):
    p = ctx.p
    n = 0
    for fi in p.funcs_in("mbox"):
        for w in [x for x in body_walk(fi.node) if isinstance(x, (ast.AsyncWith, ast.With))]:
            if not any(isinstance(strip_await(it.context_expr), ast.Attribute) and strip_await(it.context_expr).attr == "mh_sequences_lock" for it in w.items):
                continue
            reread = None
            for s in w.body:
                for x in walk_no_nested(s):
                    if isinstance(x, ast.Assign) and isinstance(x.value, ast.Call) and call_name(x.value) == "get_sequences_from_folder" and isinstance(x.targets[0], ast.Name):
                        reread = x
            writes = [c for s in w.body for c in calls_in(s) if call_name(c) == "set_sequences_in_folder"]
            if reread is None or not writes:
                continue
            n += 1
            ctx.analysed(fi)
            var = reread.targets[0].id
            # is the re-read object mutated in the region? then it is meant to be the merge target
            mutated = any(isinstance(c, ast.Call) and call_name(c) in ("add", "discard", "update") and isinstance(call_recv(c), ast.Subscript) and norm(call_recv(c).value) == var for s in w.body for c in ast.walk(s))
            for wc in writes:
                if not mutated:
                    ctx.ok("R13.4", where(fi), f"re-read `{var}` is only consulted; write-back of {norm(wc.args[0], 30)}", nontrivial=False)
                elif wc.args and norm(wc.args[0]) == var and norm(call_recv(wc)) == norm(call_recv(reread.value)):
                    ctx.ok("R13.4", where(fi), f"region re-reads the file into `{var}`, merges and writes `{var}` back")
                else:
                    ctx.bad("R13.4", fi.module, fi.qual, norm(wc, 80), f"the region re-reads .mh_sequences into `{var}` and merges the change into it, but writes `{norm(wc.args[0], 40) if wc.args else '?'}` back: entries an MH agent added since the last resync (`unseen` of a just-delivered message) are overwritten", wc.lineno)
    ctx.floor("R13.4", n, 2, "lock regions that re-read and write .mh_sequences")


WRITEBACK_EXPECT = {
    "mbox.Mailbox.fetch": ("reread", "FETCH runs next to deliveries: it must edit the file's current content, not overwrite it with the state of the last resync"),
    "mbox.Mailbox.store": ("memory", "STORE replaces / removes flags: only the in-memory state (as changed by the helpers) knows what was removed"),
    "mbox.Mailbox.expunge": ("memory", "removed keys must vanish from every sequence"),
    "mbox.Mailbox.append": ("memory", "written right after the key was added to the in-memory sequences"),
}


def r13_6(ctx):
    """What is written to .mh_sequences, for each write site `R.set_sequences_in_folder(A)`:
       memory  A is R.sequences (or a copy of it): the in-memory state of the *same* mailbox;
       reread  A is a local obtained from R.get_sequences_from_folder() in this function and edited per key (add / discard /
               assignment of a sequence) - never by a bulk union with the in-memory sets, which can add but never remove;
       fresh   A is a map built in this function for another mailbox object (COPY's destination, the target of RENAME INBOX)
               and R is that other mailbox.
    Per function the kind is fixed where the semantics demand it (WRITEBACK_EXPECT)."""
    p = ctx.p
    n = 0
    for fi in p.funcs_in("mbox"):
        for c in calls_in(fi.node):
            if call_name(c) != "set_sequences_in_folder" or not c.args or call_recv(c) is None:
                continue
            n += 1
            ctx.analysed(fi)
            recv = norm(call_recv(c))
            a = c.args[0]
            kind = None
            why = ""
            if norm(a) in (f"{recv}.sequences", f"copy({recv}.sequences)", f"copy.copy({recv}.sequences)", f"deepcopy({recv}.sequences)"):
                kind = "memory"
            elif isinstance(a, ast.Name):
                defs = [s_ for s_ in body_walk(fi.node) if isinstance(s_, (ast.Assign, ast.AnnAssign)) and norm(s_.targets[0] if isinstance(s_, ast.Assign) else s_.target) == a.id and getattr(s_, "value", None) is not None]
                vals = [strip_await(s_.value) for s_ in defs]
                if fi.name == "_get_sequences_update_seen" or any(isinstance(v, ast.Call) and call_name(v) in ("get_sequences_from_folder", "_get_sequences_update_seen") for v in vals):
                    src_recv = [norm(call_recv(v)) for v in vals if isinstance(v, ast.Call) and call_name(v) in ("get_sequences_from_folder", "_get_sequences_update_seen")]
                    kind = "reread"
                    if src_recv and any(r_ != recv for r_ in src_recv):
                        kind, why = None, f"re-read from {src_recv[0]} but written to {recv}"
                    # bulk union with in-memory sets?
                    for s_ in body_walk(fi.node):
                        if isinstance(s_, ast.AugAssign) and isinstance(s_.op, ast.BitOr) and isinstance(s_.target, ast.Subscript) and norm(s_.target.value) == a.id:
                            kind, why = None, f"`{norm(s_, 50)}` merges by union: a flag that was removed in memory stays in the file"
                        if isinstance(s_, ast.Call) and call_name(s_) == "update" and isinstance(call_recv(s_), ast.Name) and call_recv(s_).id == a.id:
                            kind, why = None, f"`{norm(s_, 50)}` overwrites whole sequences of the re-read map"
                elif any(isinstance(v, ast.Call) and (call_name(v) in ("defaultdict", "dict") or norm(v.func) in ("defaultdict",)) for v in vals) or any(isinstance(v, ast.Dict) for v in vals):
                    # a map built here: must belong to the receiver - i.e. it is also what becomes <recv>.sequences
                    owner = [norm(s_.targets[0]) for s_ in body_walk(fi.node) if isinstance(s_, ast.Assign) and norm(s_.value) == a.id and isinstance(s_.targets[0], ast.Attribute) and s_.targets[0].attr == "sequences"]
                    if owner == [f"{recv}.sequences"]:
                        kind = "fresh"
                    else:
                        why = f"the map `{a.id}` is built for {owner[0].rsplit('.', 1)[0] if owner else 'another object'} but written into the folder of `{recv}`"
            exp = WRITEBACK_EXPECT.get(fi.key)
            if kind is None:
                ctx.bad("R13.6", fi.module, fi.qual, norm(c, 80), f".mh_sequences of `{recv}` is written from `{norm(a, 40)}`, which is neither that mailbox's in-memory sequences nor its file re-read and edited per key" + (f": {why}" if why else ""), c.lineno)
            elif exp and kind != exp[0]:
                ctx.bad("R13.6", fi.module, fi.qual, norm(c, 80), f"{fi.name}() writes the {kind} state to .mh_sequences where the {exp[0]} state is required: {exp[1]}", c.lineno)
            else:
                ctx.ok("R13.6", where(fi), f"{norm(c, 60)}: {kind}" + (f" (required: {exp[1][:60]})" if exp else ""), nontrivial=bool(exp) or kind != "memory")
    ctx.floor("R13.6", n, 10, "write sites of .mh_sequences")


def r13_5(ctx):
    p = ctx.p
    fi = p.func("mbox.Mailbox.check_new_msgs_and_flags")
    ctx.analysed(fi)
    from .common import pm_of

    pm = pm_of(p, fi)
    checks = [
        (pm.has("new_msg_keys = sorted(set(msg_keys) - set(self.msg_keys))"), "new keys = folder keys minus known keys, ascending"),
        (pm.has("self.msg_keys.extend(new_msg_keys)"), "new keys are appended at the end"),
        (pm.has("msg_seqs = self.get_sequences_from_folder()"), "flags of new messages are taken from the folder's .mh_sequences"),
        (pm.has("msg_sequences = {'Recent'}"), "every new message gets \\Recent"),
        (pm.has("if key in msg_seqs[seq]:\n    msg_sequences.add(seq)"), "each sequence the agent listed the key in is taken over"),
        (pm.has("self.set_sequences_in_folder(self.sequences)"), "the merged state is written back"),
    ]
    for okv, what in checks:
        if okv:
            ctx.ok("R13.5", where(fi), what)
        else:
            ctx.bad("R13.5", fi.module, fi.qual, what, f"reconcile lost: {what}", fi.node.lineno)
    # existing keys' flags are not touched by the merge loop: the loop iterates new_msg_keys only
    nk = pm.name("new_msg_keys") or "new_msg_keys"
    loops = [n for n in body_walk(fi.node) if isinstance(n, ast.For) and norm(n.iter) == nk and any("self.sequences[" in norm(b, 200) for b in n.body)]
    if loops:
        ctx.ok("R13.5", where(fi), "flag merge iterates over the new keys only (existing messages keep their flags)")
    else:
        ctx.bad("R13.5", fi.module, fi.qual, "for key in new_msg_keys", "the reconcile's flag merge no longer iterates over exactly the new keys", fi.node.lineno)


def r13_7(ctx):
    """Between the server's last look at a folder and its next write of .mh_sequences an MH agent may have delivered a
    message and listed it in `unseen`.  The server's in-memory flag sets know nothing of that message, so a write of those
    sets alone erases the agent's entry - the next resync then finds a new message that is in no sequence and announces it as
    \\Seen.  (A resync before the command does not close the window: it is skipped while the folder's mtime, kept in whole
    seconds, has not advanced, and the command awaits after it.)  Every write goes through set_sequences_in_folder(); what
    that function hands to MH.set_sequences() is therefore built from the caller's sets *and* from a fresh read of the
    folder's sequences, restricted to the keys the mailbox does not know (`self.msg_keys`)."""
    p = ctx.p
    fi = p.func("mbox.Mailbox.set_sequences_in_folder")
    ctx.analysed(fi)
    writes = [c for c in calls_in(fi.node) if call_name(c) == "set_sequences"]
    ctx.require(writes, "set_sequences_in_folder: call of MH.set_sequences not found")
    # names (transitively) feeding the written value
    feeds, todo = set(), [writes[0].args[0]] if writes[0].args else []
    reads_fresh = reads_known = False
    seen_names = set()
    while todo:
        e = todo.pop()
        for x in ast.walk(e):
            if isinstance(x, ast.Call) and call_name(x) == "get_sequences":
                reads_fresh = True
            if isinstance(x, ast.Attribute) and norm(x) == "self.msg_keys":
                reads_known = True
            if isinstance(x, ast.Name) and x.id not in seen_names:
                seen_names.add(x.id)
                for s_ in body_walk(fi.node):
                    if isinstance(s_, (ast.Assign, ast.AugAssign)) and any(isinstance(t, ast.Name) and t.id == x.id for t in (s_.targets if isinstance(s_, ast.Assign) else [s_.target])):
                        todo.append(s_.value)
                    elif isinstance(s_, (ast.For,)) and any(isinstance(t, ast.Name) and t.id == x.id for t in ast.walk(s_.target)):
                        todo.append(s_.iter)
                    elif isinstance(s_, ast.Expr) and isinstance(s_.value, ast.Call) and isinstance(s_.value.func, ast.Attribute) and any(isinstance(r, ast.Name) and r.id == x.id for r in ast.walk(s_.value.func.value)):
                        todo.extend(s_.value.args)  # to_write.setdefault(name, set()).update(not_ours)
    callers = [f2 for f2 in p.functions.values() for c in calls_in(f2.node) if call_name(c) == "set_sequences" and f2.key != fi.key and "self.mailbox" in norm(call_recv(c) or ast.Name(""))]
    if callers:
        ctx.bad("R13.7", callers[0].module, callers[0].qual, "MH.set_sequences called outside set_sequences_in_folder", "a second writer of .mh_sequences bypasses the merge with what an MH agent recorded for messages the server has not seen yet", callers[0].node.lineno)
    if reads_fresh and reads_known:
        ctx.ok("R13.7", where(fi), "what is written to .mh_sequences = the caller's sets + the folder's own entries for keys the mailbox does not know")
    else:
        ctx.bad("R13.7", fi.module, fi.qual, "self.mailbox.set_sequences(<the caller's sets only>)", "the writer of .mh_sequences hands MH exactly the in-memory flag sets: the `unseen` entry an MH agent recorded for a message delivered since the server last read the folder is erased, and the next resync announces that message as \\Seen (STORE, APPEND, EXPUNGE, COPY all write this way)", writes[0].lineno)


def r13_8(ctx):
    """set_sequences_in_folder() keeps the folder's own entries for every message the mailbox does not know (R13.7) - "know"
    meaning `msg_keys` at the moment of the call.  So wherever a function both changes a mailbox's `msg_keys` and writes that
    mailbox's sequences, the write comes after the last change: written earlier, the numbers the function is about to give up
    (RENAME INBOX, a reset) still count as the mailbox's own, and what an MH agent has just recorded for a message that
    re-used one of them is erased; numbers it is about to take in are not protected yet."""
    p = ctx.p
    n = 0
    for fi in p.funcs_in("mbox"):
        writes = [c for c in calls_in(fi.node) if call_name(c) == "set_sequences_in_folder" and call_recv(c) is not None]
        if not writes or fi.name == "set_sequences_in_folder":
            continue
        if fi.name == "_pack_if_necessary":
            # the pack protocol (R3.5) writes the sequences, lets MH renumber files and sequences, then re-reads both
            continue
        g = None
        for c in writes:
            recv = norm(call_recv(c))
            changes = []
            for s_ in body_walk(fi.node):
                if isinstance(s_, ast.Assign) and any(norm(t) == f"{recv}.msg_keys" for t in s_.targets):
                    changes.append(s_)
                elif isinstance(s_, ast.Expr) and isinstance(s_.value, ast.Call) and call_name(s_.value) in ("extend", "append", "clear", "remove", "pop") and norm(call_recv(s_.value)) == f"{recv}.msg_keys":
                    changes.append(s_)
                elif isinstance(s_, ast.Delete) and any(isinstance(t, ast.Subscript) and norm(t.value) == f"{recv}.msg_keys" for t in s_.targets):
                    changes.append(s_)
            if not changes:
                continue
            g = g or ctx.cfg(fi)
            ctx.analysed(fi)
            wn = [x.id for x in g.nodes if x.ast is not None and x.kind == "stmt" and any(y is c for y in ast.walk(x.ast))]
            ctx.require(wn, f"{fi.qual}: CFG node of the sequences write not found")
            all_w = {x.id for x in g.nodes if x.ast is not None and x.kind == "stmt" and any(call_name(y) == "set_sequences_in_folder" and norm(call_recv(y) or ast.Name("")) == recv for y in calls_in(x.ast))}
            n += 1
            late = None
            for ch in changes:
                cn = [x for x in g.nodes_for(ch) if g.nodes[x].kind == "stmt"]
                if not cn:
                    continue
                # a change of msg_keys that is reached from this write without another write in between
                after = flow.reach(g, [e.dst for e in g.out[wn[0]] if e.label in flow.NORMAL], flow.NORMAL, avoid=lambda x: x in all_w and x != wn[0])
                loops_back = wn[0] in flow.reach(g, [e.dst for e in g.out[cn[0]] if e.label in flow.NORMAL], flow.NORMAL)
                if cn[0] in after and not loops_back:
                    late = ch
            if late is not None:
                ctx.bad("R13.8", fi.module, fi.qual, f"{norm(c, 60)} before {norm(late, 50)}", f".mh_sequences of `{recv}` is written before `{norm(late, 50)}`: the writer still takes the old message numbers for the mailbox's own, so the `unseen` entry an MH agent records for a message that re-uses one of them in that window is erased (the new mail shows up as \\Seen)", c.lineno)
            else:
                ctx.ok("R13.8", where(fi), f"{recv}: .mh_sequences is written after the last change of its msg_keys")
    ctx.floor("R13.8", n, 2, "functions that change msg_keys and write .mh_sequences")


def r13_9(ctx):
    """MH hands the next delivered message the highest key + 1: the key of a message that has just been removed may name a
    new message by the time `.mh_sequences` is rewritten.  (a) set_sequences_in_folder() keeps the folder's entries of keys
    it does not know (the delivery agent's `unseen`) - but of the keys its caller names as `gone` it keeps `unseen` only:
    everything else the folder says about them is what the server wrote for the removed message.  (b) Every function that
    removes message files one by one names them: the rewrite it reaches carries `gone=<the keys removed>`."""
    from .common import pm_of

    p = ctx.p
    fi = p.func("mbox.Mailbox.set_sequences_in_folder")
    ctx.analysed(fi)
    pm = pm_of(p, fi)
    if "gone" not in [a.arg for a in fi.node.args.args + fi.node.args.kwonlyargs]:
        ctx.bad("R13.9", fi.module, fi.qual, "set_sequences_in_folder(seqs, gone=...)", "the rewrite of .mh_sequences cannot be told which keys its caller has just removed: what the folder still says about them is kept as `not ours`, and a message delivered under a re-used key inherits \\Deleted / \\Answered of the removed one", fi.node.lineno)
        return
    shapes = [
        "for name, keys in self.mailbox.get_sequences().items():\n    not_ours = set(keys) - ours\n    if name != 'unseen':\n        not_ours -= gone\n    ...",
        "for name, keys in self.mailbox.get_sequences().items():\n    not_ours = set(keys) - ours\n    if name != 'unseen':\n        not_ours.difference_update(gone)\n    ...",
        "for name, keys in self.mailbox.get_sequences().items():\n    not_ours = set(keys) - ours - gone if name != 'unseen' else set(keys) - ours\n    ...",
    ]
    if any(pm.has(x) for x in shapes):
        ctx.ok("R13.9", where(fi), "entries of the keys named `gone` are dropped from what is kept of the folder's file, `unseen` excepted")
    else:
        ctx.bad("R13.9", fi.module, fi.qual, "if name != 'unseen': not_ours -= gone", "the rewrite of .mh_sequences keeps what the folder says about keys the caller has just removed (or drops their `unseen` too): a message delivered under a re-used key inherits \\Deleted / \\Answered of the removed one - the next EXPUNGE destroys it - or comes up \\Seen", fi.node.lineno)
    n = 0
    for f2 in p.functions.values():
        muts = [m for m in seq_mutations(f2) if m[2] == "message file removed"]
        if not muts:
            continue
        n += 1
        ctx.analysed(f2)
        par = parmap(f2)
        for obj in sorted({m[1] for m in muts}):
            wb = [c for c in calls_in(f2.node) if call_name(c) == "set_sequences_in_folder" and norm(call_recv(c)) == obj]
            # the loop(s) the removals sit in
            loops = []
            for m in muts:
                if m[1] != obj:
                    continue
                cur = m[0]
                while cur in par:
                    cur = par[cur]
                    if isinstance(cur, (ast.For, ast.AsyncFor)):
                        loops.append(cur)
                        break
            okc = None
            why = "no rewrite of .mh_sequences carries gone="
            for c in wb:
                g_ = c.args[1] if len(c.args) > 1 else kwarg(c, "gone")
                if g_ is None:
                    continue
                gtxt = norm(g_)
                if any(norm(l.iter) == gtxt for l in loops):
                    okc = (c, "the list the removal loop walks")
                    break
                if isinstance(g_, ast.Name):
                    defs = [s for s in body_walk(f2.node) if isinstance(s, ast.Assign) and len(s.targets) == 1 and isinstance(s.targets[0], ast.Name) and s.targets[0].id == g_.id]
                    if len(defs) == 1 and norm(defs[0].value) in (f"{obj}.msg_keys", f"list({obj}.msg_keys)", f"{obj}.msg_keys[:]", f"{obj}.msg_keys.copy()"):
                        # ... taken before the list is reset
                        resets = [s for s in body_walk(f2.node) if isinstance(s, ast.Assign) and any(norm(t) == f"{obj}.msg_keys" for t in s.targets)]
                        if all(defs[0].lineno < r.lineno for r in resets):
                            okc = (c, f"{obj}.msg_keys as it was before the reset")
                            break
                        why = f"`{g_.id}` is read from {obj}.msg_keys after the list was reset"
                    apps = [x for l in loops for x in calls_in(l) if call_name(x) == "append" and norm(call_recv(x)) == g_.id]
                    if apps:
                        okc = (c, "keys collected in the removal loop")
                        break
            if okc:
                ctx.ok("R13.9", where(f2), f"{obj}: rewrite after the removals names the removed keys ({okc[1]})")
            else:
                ctx.bad("R13.9", f2.module, f2.qual, f"{obj}.set_sequences_in_folder(..., gone=<removed keys>)", f"message files of {obj} are removed one by one and {why}: a message delivered meanwhile under a freed key keeps the flags of the removed message", muts[0][0].lineno)
    ctx.floor("R13.9", n, 2, "functions that remove message files one by one")


def _clock_of_call(e):
    e = strip_await(e)
    if isinstance(e, ast.Call) and isinstance(e.func, ast.Attribute) and not e.args:
        t = norm(e.func)
        if t in ("time.time", "time.time_ns"):
            return "wall"
        if t in ("time.monotonic", "time.perf_counter", "time.monotonic_ns") or t.endswith("loop.time") or t.endswith("get_event_loop().time") or t.endswith("get_running_loop().time"):
            return "mono"
    return None


def r13_10(ctx):
    """Clock domains: a value read from the wall clock (time.time) is only ever subtracted from / compared with another wall
    clock reading, a monotonic one (time.monotonic, loop.time) with a monotonic one.  The difference of the two is a
    meaningless (hugely negative) number: the `more than 10 s since the last resync` test of command_can_proceed() - the
    only thing that makes a mailbox look at its folder while sessions keep it busy with non-conflicting commands - can then
    never fire, and delivered mail is not announced for as long as the stream lasts.  Domains are inferred per local name (in
    its function) and per attribute name (over the package) from what is assigned to them: a name that only ever receives
    one clock's readings (+/- a number) carries that clock."""
    p = ctx.p

    def dom_of_value(v, local):
        v = strip_await(v)
        d = _clock_of_call(v)
        if d:
            return d
        if isinstance(v, ast.BinOp) and isinstance(v.op, (ast.Add, ast.Sub)):
            l, r = dom_of_value(v.left, local), dom_of_value(v.right, local)
            if isinstance(v.op, ast.Sub) and l and r:
                return None  # a duration
            return l or (r if isinstance(v.op, ast.Add) else None)
        if isinstance(v, ast.Name):
            return local.get(v.id)
        return None

    # attribute domains over the package
    attr_src: dict[str, set] = {}
    for fi in p.functions.values():
        for s in body_walk(fi.node):
            if isinstance(s, (ast.Assign, ast.AnnAssign)) and getattr(s, "value", None) is not None:
                ts = s.targets if isinstance(s, ast.Assign) else [s.target]
                for t in ts:
                    if isinstance(t, ast.Attribute):
                        d = dom_of_value(s.value, {})
                        v = strip_await(s.value)
                        if d is None and isinstance(v, ast.Constant) and isinstance(v.value, (int, float, type(None))):
                            continue  # initial 0 / None
                        attr_src.setdefault(t.attr, set()).add(d or "other")
    attr_dom = {a: next(iter(ds)) for a, ds in attr_src.items() if len(ds) == 1 and next(iter(ds)) in ("wall", "mono")}
    n_ops = 0
    for fi in p.functions.values():
        local_src: dict[str, set] = {}
        for s in body_walk(fi.node):
            if isinstance(s, (ast.Assign, ast.AnnAssign)) and getattr(s, "value", None) is not None:
                ts = s.targets if isinstance(s, ast.Assign) else [s.target]
                for t in ts:
                    if isinstance(t, ast.Name):
                        d = dom_of_value(s.value, {k: next(iter(v)) for k, v in local_src.items() if len(v) == 1})
                        local_src.setdefault(t.id, set()).add(d or "other")
        local = {k: next(iter(v)) for k, v in local_src.items() if len(v) == 1 and next(iter(v)) in ("wall", "mono")}

        def dom(e):
            e = strip_await(e)
            d = dom_of_value(e, local)
            if d:
                return d
            if isinstance(e, ast.Attribute):
                return attr_dom.get(e.attr)
            return None

        for e in body_walk(fi.node):
            pairs = []
            if isinstance(e, ast.BinOp) and isinstance(e.op, ast.Sub):
                pairs.append((e.left, e.right))
            elif isinstance(e, ast.Compare) and len(e.ops) == 1 and isinstance(e.ops[0], (ast.Lt, ast.LtE, ast.Gt, ast.GtE)):
                pairs.append((e.left, e.comparators[0]))
            for a, b in pairs:
                da, db = dom(a), dom(b)
                if da and db:
                    n_ops += 1
                    ctx.analysed(fi)
                    if da != db:
                        ctx.bad("R13.10", fi.module, fi.qual, norm(e, 80), f"`{norm(a, 40)}` is a {'wall-clock' if da == 'wall' else 'monotonic'} reading and `{norm(b, 40)}` a {'wall-clock' if db == 'wall' else 'monotonic'} one: their difference is not a time span, the test built on it never (or always) fires - here the forced resync of a busy mailbox, so mail delivered meanwhile is not announced", e.lineno)
                    else:
                        ctx.ok("R13.10", where(fi), f"{norm(e, 50)}: both {da}", nontrivial=False)
    ctx.floor("R13.10", n_ops, 15, "subtractions / comparisons between clock readings")


def r13_11(ctx):
    """While a mailbox is a \\Noselect placeholder its resync is skipped, but the poll still records the folder's current
    modification time.  A delivery into the (still existing) folder is therefore already `known` by mtime when CREATE brings
    the name back: only a *forced* resync (`optional=False`) in that branch of Mailbox.create() scans the folder and gives
    the delivered messages UIDs, \\Recent and their announcements."""
    p = ctx.p
    fi = p.func("mbox.Mailbox.create")
    ctx.analysed(fi)
    par = parmap(fi)
    n = 0
    for c in calls_in(fi.node):
        if call_name(c) != "check_new_msgs_and_flags":
            continue
        cur, under = c, False
        while cur in par:
            cur = par[cur]
            if isinstance(cur, ast.If) and "Noselect" in norm(cur.test):
                under = True
            # (the other spelling: `if "\\Noselect" not in attrs: raise MailboxExists` followed by the revive code)
            up_ = par.get(cur)
            for fld in ("body", "orelse", "finalbody"):
                lst = getattr(up_, fld, None)
                if isinstance(lst, list) and cur in lst:
                    for prev in lst[: lst.index(cur)]:
                        if isinstance(prev, ast.If) and "Noselect" in norm(prev.test) and prev.body and isinstance(prev.body[-1], (ast.Raise, ast.Return)):
                            under = True
        if not under:
            continue
        n += 1
        opt = kwarg(c, "optional") or (c.args[0] if c.args else None)
        if isinstance(opt, ast.Constant) and opt.value is False:
            ctx.ok("R13.11", where(fi), "CREATE of a \\Noselect placeholder resyncs with optional=False")
        else:
            ctx.bad("R13.11", fi.module, fi.qual, norm(c, 70), "CREATE revives a \\Noselect mailbox with an *optional* resync: the poll has kept its mtime current while it was skipped, so messages delivered meanwhile are `not new` - they get no UIDs, no \\Recent, no announcement and SELECT reports the count from before the DELETE", c.lineno)
    ctx.floor("R13.11", n, 1, "resyncs in the revive branch of Mailbox.create()")


def run(ctx):
    ctx.do(r13_1)
    ctx.do(r13_2)
    ctx.do(r13_3)
    ctx.do(r13_4)
    ctx.do(r13_5)
    ctx.do(r13_6)
    ctx.do(r13_7)
    ctx.do(r13_8)
    ctx.do(r13_9)
    ctx.do(r13_10)
    ctx.do(r13_11)
    from . import c10
    ctx.do(c10.r10_7)
    from . import c02 as _c02
    ctx.do(_c02.r2_1)  # a delivered message gets a fresh UID (next_uid never steps back)
    from . import c04 as _c04
    ctx.do(_c04.r4_3)  # Seen / unseen stay complements through every flag helper
    ctx.do(_c04.r4_11)  # .mh_sequences stays readable: no flag name breaks its line format
    from . import c12 as _c12b
    ctx.do(_c12b.r12_5)  # flag rows of removed messages do not survive in the database
    ctx.do(_c12b.r12_1)  # keys and UIDs come back from the db in the columns they were written to: nothing old is announced as new
    from . import c01 as _c01x
    ctx.do(_c01x.r1_11)  # every selected session is told of the new messages
    ctx.note("periodic poll liveness (clean-up before the emptiness test of executing_tasks) is decided by C10 R10.7")
    for k, v in WRITEBACK_EXEMPT.items():
        ctx.trust(f"frozen write-back exemption: {k} - {v}")
