"""C17 - the mailbox list follows the CREATE/DELETE/RENAME/SUBSCRIBE history.

 R17.1 both sources of truth (file system and mailboxes table / active cache) are updated together and committed
 R17.2 every comparison of a mailbox name with "inbox" is case-insensitive
 R17.3 validate-before-mutate for namespace operations (shares C05 R5.5)
 R17.4 \\HasChildren is not derived from the pattern-filtered result set
 R17.5 the LIST matching path has a case-insensitive provision for INBOX (stored as 'inbox')
 R17.6 the children of the inbox are looked for under its stored name
 R17.7 a reference's trailing hierarchy delimiter survives normalisation (parser records it, do_list restores it)
 R17.8 a first hierarchy level INBOX is folded to the stored spelling by the name parser and the pattern compiler alike
"""
from __future__ import annotations

import ast
import re

from .. import flow
from ..astutil import polarity_atoms, body_walk, call_name, call_recv, calls_in, fstring_parts, merge_consts, names_in, norm, strip_await, walk_no_nested
from ..cfg import is_log_call
from .common import is_push_call, parmap, where

PROP = "C17"
EXPLANATION = (
    "(R17.1) Mailbox.create registers in the database every directory level it created (the registration loop ranges "
    "over the whole list the creation loop filled) with check_set_haschildren_attr + commit_to_db; Mailbox.delete, on the "
    "path that removes the folder, also deletes the mailboxes and sequences rows, commits, and drops the active-cache "
    "entry, and refreshes the parent's children flags; _helper_rename_folder updates the name column of every mailbox of "
    "the subtree, removes the old key from the active cache and inserts the new one, commits, renames the directory and "
    "refreshes both parents; SUBSCRIBE/UNSUBSCRIBE store the flag and commit; (R17.2) every comparison of a "
    "mailbox-name value with the constant 'inbox' applies lower()/casefold() to it; (R17.3) see C05 R5.5; (R17.4) in "
    "do_list the decision that sets \\HasChildren/\\HasNoChildren does not depend only on the names returned for this "
    "LIST's pattern. Decides these clauses, not '*'/'%' matching semantics or model equality over histories."
    " (R17.5) the LIST matching path has a case-insensitive provision for the inbox (stored as 'inbox'); (R17.6) the children of the inbox are looked for under the stored name; (R17.7) the trailing delimiter of a LIST reference survives normalisation (parser records it, do_list restores it); (R17.8) name parser and pattern compiler both fold a first level INBOX."
)
RULE_TEXT = "instances: each namespace effect with its matching db/cache effect; each 'inbox' comparison site; the \\HasChildren decision; non-trivial = CFG/def-use query"
ASSUMPTIONS = ["the mailboxes table and the directory tree are the only two sources of truth for the namespace", "not decided: pattern semantics on values; model equality over histories with restarts"]
LEVEL_TEXT = (
    "Static pairing of file-system effects with their database/cache effects in create/delete/rename, sibling agreement of "
    "every INBOX comparison, and def-use provenance of the \\HasChildren decision."
)
LEVEL_NOTE = "Structural clauses only. Trusted: CPython ast."
TECHNIQUE = "effect pairing (must-pass-through) + sibling agreement + def-use provenance"
DESIGN_REF = "DESIGN.md section 3 / C17"


def r17_1(ctx):
    p = ctx.p
    # ---- create
    cr = p.func("mbox.Mailbox.create")
    ctx.analysed(cr)
    mk = [n for n in body_walk(cr.node) if isinstance(n, ast.For) and any(isinstance(c, ast.Call) and isinstance(c.func, ast.Name) and c.func.id == "MH" for s in n.body for c in ast.walk(s))]
    ctx.require(mk, "create(): directory creation loop not found")
    filled = None
    for s in mk[0].body:
        for c in ast.walk(s):
            if isinstance(c, ast.Call) and call_name(c) == "append" and isinstance(call_recv(c), ast.Name) and c.args and "mbox_name" in norm(c.args[0]):
                filled = call_recv(c).id
    ctx.require(filled, "create(): list of created names not found")
    reg = [n for n in body_walk(cr.node) if isinstance(n, ast.For) and n is not mk[0] and any(call_name(c) == "get_mailbox" for s in n.body for c in calls_in(s))]
    ctx.require(reg, "create(): registration loop not found")
    it = reg[0].iter
    whole = (isinstance(it, ast.Name) and it.id == filled) or (isinstance(it, ast.Call) and isinstance(it.func, ast.Name) and it.func.id in ("reversed", "list", "sorted") and norm(it.args[0]) == filled)
    body = " ".join(norm(s, 300) for s in reg[0].body)
    if whole and "check_set_haschildren_attr()" in body and "commit_to_db()" in body:
        ctx.ok("R17.1", where(cr), f"every created level (whole list `{filled}`) is registered: get_mailbox + check_set_haschildren_attr + commit_to_db")
    else:
        ctx.bad("R17.1", cr.module, cr.qual, f"for ... in {norm(it)}", f"CREATE makes a directory for every path level but registers only `{norm(it)}` in the database: the other levels exist on disk and are missing from LIST until something touches them", reg[0].lineno)
    # the creation loop covers every prefix of the name
    from .common import pm_of

    pcr = pm_of(p, cr)
    if pcr.has("for chain_name in name.split('/'):\n    mbox_chain.append(chain_name)\n    ...\n    mbox_name = '/'.join(mbox_chain)\n    ...\n    MH(server.maildir / mbox_name)\n    mbox_names.append(mbox_name)"):
        ctx.ok("R17.1", where(cr), "a directory is created for every '/'-prefix of the name")
    else:
        ctx.bad("R17.1", cr.module, cr.qual, "for chain_name in name.split('/')", "CREATE no longer creates every intermediate level", mk[0].lineno)
    # ---- delete
    dl = p.func("mbox.Mailbox.delete")
    g = ctx.cfg(dl)
    rm = {n.id for n in g.nodes if n.ast is not None and n.kind == "stmt" and any(call_name(c) == "remove_folder" for c in calls_in(n.ast))}
    ctx.require(rm, "delete(): remove_folder not found")
    steps = [
        ("DELETE FROM mailboxes", lambda a: "delete from mailboxes" in norm(a, 300).lower()),
        ("DELETE FROM sequences", lambda a: "delete from sequences" in norm(a, 300).lower()),
        ("db.commit()", lambda a: "db.commit()" in norm(a)),
        ("removal from active_mailboxes", lambda a: "del server.active_mailboxes[name]" in norm(a) or "active_mailboxes.pop(" in norm(a)),
    ]
    for what, pred in steps:
        must = {n.id for n in g.nodes if n.ast is not None and n.kind == "stmt" and pred(n.ast)}
        # the cache removal sits under `if name in server.active_mailboxes` - accept its test node as passing
        if what.startswith("removal"):
            must |= {n.id for n in g.nodes if n.kind == "test" and "in server.active_mailboxes" in norm(n.ast)}
        w = flow.escapes_without(g, next(iter(rm)), lambda n: n in must, [g.exit]) if must else [0]
        ctx.paths_explored += 1
        if w:
            ctx.bad("R17.1", dl.module, dl.qual, what, f"after the folder is removed from disk DELETE can return without {what}: the mailbox stays listed / cached although it no longer exists", g.nodes[next(iter(rm))].line)
        else:
            ctx.ok("R17.1", where(dl), f"folder removal is followed by {what}")
    pdl = pm_of(p, dl)
    if pdl.has("parent_name = os.path.dirname(name)") and pdl.has("if parent_name:\n    ...\n    parent_mbox = await server.get_mailbox(parent_name)\n    parent_mbox.check_set_haschildren_attr()\n    await parent_mbox.commit_to_db()"):
        ctx.ok("R17.1", where(dl), "parent's children flags refreshed and committed")
    else:
        ctx.bad("R17.1", dl.module, dl.qual, "parent_mbox.check_set_haschildren_attr(); commit_to_db()", "DELETE no longer refreshes the parent's \\HasChildren state", dl.node.lineno)
    if pdl.has("inferior_mailboxes = mbox.mailbox.list_folders()") and pdl.has("if inferior_mailboxes or mbox.subscribed:\n    ...\n    mbox.attributes.add('\\\\Noselect')\n    ..."):
        ctx.ok("R17.1", where(dl), "a mailbox with inferiors (or subscribed) becomes a \\Noselect placeholder instead of being removed")
    else:
        ctx.bad("R17.1", dl.module, dl.qual, "\\Noselect placeholder arm", "DELETE no longer keeps a \\Noselect placeholder for a mailbox with inferiors", dl.node.lineno)
    # ---- rename
    rf = p.func("mbox._helper_rename_folder")
    inner = p.func("mbox._helper_rename_folder._do_rename_folder")
    ctx.analysed(rf)
    ctx.analysed(inner)
    pin = pm_of(p, inner)
    pin.has("mbox_old_name = old_mbox.name")
    for okv, what in (
        (pin.has("await srvr.db.execute('UPDATE mailboxes SET name=? WHERE id=?', (mbox_new_name, old_id))"), "name column updated to the new name for that id"),
        (pin.has("mb = srvr.active_mailboxes[mbox_old_name]") and (pin.has("del srvr.active_mailboxes[mbox_old_name]") or pin.has("srvr.active_mailboxes.pop(mbox_old_name)")), "old name removed from the active cache"),
        (pin.has("srvr.active_mailboxes[mbox_new_name] = mb"), "mailbox inserted into the active cache under the new name"),
        (pin.has("mb.name = mbox_new_name") and pin.has("mb.mailbox = srvr.mailbox.get_folder(mbox_new_name)"), "in-memory name and MH handle switched to the new name"),
    ):
        if okv:
            ctx.ok("R17.1", where(inner), what)
        else:
            ctx.bad("R17.1", inner.module, inner.qual, what, f"RENAME lost: {what} - something stays reachable under the old name (e.g. re-creating the old name returns the renamed mailbox and never gets a row of its own)", inner.node.lineno)
    prf = pm_of(p, rf)
    prf.has("srvr = mbox.server")
    prf.has("old_name = mbox.name")
    tr = norm(rf.node, 20000)
    for okv, what in (
        (prf.has("srvr.db.query('SELECT name,id FROM mailboxes WHERE name=? OR name LIKE ?', (old_name, f'{old_name}/%'))"), "the whole subtree (name and name/%) is selected for renaming"),
        (prf.has("mbox_new_name = new_name + mbox_old_name[len(old_name):]"), "each subtree member keeps its suffix under the new prefix"),
        (prf.has("await srvr.db.commit()"), "the name updates are committed"),
        (prf.has("old_dir = mbox_msg_path(srvr.mailbox, old_name)") and prf.has("new_dir = mbox_msg_path(srvr.mailbox, new_name)") and prf.has("await aiofiles.os.rename(old_dir, new_dir)"), "the directory is renamed"),
        (tr.count("check_set_haschildren_attr()") >= 2, "old and new parents' children flags refreshed"),
    ):
        if okv:
            ctx.ok("R17.1", where(rf), what)
        else:
            ctx.bad("R17.1", rf.module, rf.qual, what, f"RENAME lost: {what}", rf.node.lineno)
    # every member of to_change is renamed (both branches of the inner if call the helper)
    lp = [n for n in body_walk(rf.node) if isinstance(n, ast.For) and "to_change.items()" in norm(n.iter)]
    if lp and all(any(call_name(c) == "_do_rename_folder" for s in br for c in calls_in(s)) for i in [x for x in lp[0].body if isinstance(x, ast.If)] for br in (i.body, i.orelse)) or (lp and any(call_name(c) == "_do_rename_folder" for s in lp[0].body if not isinstance(s, ast.If) for c in calls_in(s))):
        ctx.ok("R17.1", where(rf), "every selected mailbox of the subtree is renamed")
    else:
        ctx.bad("R17.1", rf.module, rf.qual, "for old, (...) in to_change.items(): _do_rename_folder", "not every mailbox of the renamed subtree is updated", rf.node.lineno)
    # the subtree is exactly `old_name` and the names below `old_name/`: LIKE treats `_` and `%` *in the mailbox name* as
    # wildcards, so the rows it returns are filtered by a real prefix test (or the pattern is escaped)
    q = "srvr.db.query('SELECT name,id FROM mailboxes WHERE name=? OR name LIKE ?', (old_name, f'{old_name}/%'))"
    tail = "mbox_new_name = new_name + mbox_old_name[len(old_name):]\n    to_change[mbox_old_name] = (mbox_new_name, mbox_id)"
    exact = any(prf.has(x) for x in (
        f"async for mbox_old_name, mbox_id in {q}:\n    if mbox_old_name != old_name and not mbox_old_name.startswith(old_name + '/'):\n        continue\n    {tail}",
        f"async for mbox_old_name, mbox_id in {q}:\n    if mbox_old_name == old_name or mbox_old_name.startswith(old_name + '/'):\n        {tail.replace(chr(10) + '    ', chr(10) + '        ')}",
    )) or "escape" in tr.lower()
    if exact:
        ctx.ok("R17.1", where(rf), "rows returned by LIKE are kept only if they are the mailbox itself or really lie below `old_name/`")
    else:
        ctx.bad("R17.1", rf.module, rf.qual, "name LIKE f'{old_name}/%' without a prefix test", "the subtree to rename is selected with LIKE alone: `_` and `%` in a mailbox name are wildcards there, so `RENAME a_b q` also renames `axb/c` (another mailbox's child) to `q/c`", rf.node.lineno)
    # a mailbox cannot become its own inferior: refused before anything is changed (the directory rename fails with EINVAL
    # after the names in the db were rewritten and committed)
    rn = p.func("mbox.Mailbox.rename")
    ctx.analysed(rn)
    gr = ctx.cfg(rn)
    helper = [n.id for n in gr.nodes if n.ast is not None and n.kind == "stmt" and any(call_name(c) == "_helper_rename_folder" for c in calls_in(n.ast))]
    ctx.require(helper, "Mailbox.rename: call of _helper_rename_folder not found")

    # the mailbox being renamed: the parameter `old_name`, or `.name` of the local bound to get_mailbox(old_name)
    src_locals = {s.targets[0].id for s in body_walk(rn.node) if isinstance(s, ast.Assign) and isinstance(s.targets[0], ast.Name) and isinstance(strip_await(s.value), ast.Call) and call_name(strip_await(s.value)) == "get_mailbox" and [norm(a) for a in strip_await(s.value).args] == ["old_name"]}
    olds = {"old_name"} | {f"{v}.name" for v in src_locals}

    def _own_subtree_test(e):
        for c in ast.walk(e):
            if isinstance(c, ast.Call) and call_name(c) == "startswith" and norm(call_recv(c)) == "new_name" and c.args and isinstance(c.args[0], ast.BinOp) and isinstance(c.args[0].op, ast.Add) and norm(c.args[0].left) in olds and isinstance(c.args[0].right, ast.Constant) and c.args[0].right.value == "/":
                return True
        return False

    guards = {n.id for n in gr.nodes if n.kind == "test" and n.ast is not None and _own_subtree_test(n.ast)}
    raises_on_true = bool(guards) and all(any(e.label == "true" and gr.nodes[e.dst].kind == "raise" or (e.label == "true" and any(gr.nodes[x].kind == "raise" for x in flow.reach(gr, [e.dst], flow.NORMAL) if x not in helper) and helper[0] not in flow.reach(gr, [e.dst], flow.NORMAL)) for e in gr.out[t]) for t in guards)
    if guards and raises_on_true and flow.escapes_without(gr, gr.entry, lambda n: n in guards, helper) is None:
        ctx.ok("R17.1", where(rn), "RENAME into the mailbox's own subtree is refused before anything is changed")
    else:
        ctx.bad("R17.1", rn.module, rn.qual, "if new_name.startswith(mbox.name + '/'): raise", "RENAME of a mailbox to one of its own inferiors (`RENAME top top/inside`) is not refused up front: the names in the db are rewritten and committed, then the directory rename fails - the refused command leaves `top/inside` listed and `top` gone", rn.node.lineno)
    # ---- subscribe
    for m, val in (("do_subscribe", True), ("do_unsubscribe", False)):
        fi = p.func(f"client.Authenticated.{m}")
        psub = pm_of(p, fi)
        if psub.has("mbox = await self.server.get_mailbox(cmd.mailbox_name)") and psub.has(f"mbox.subscribed = {val}") and psub.has("await mbox.commit_to_db()"):
            ctx.ok("R17.1", where(fi), f"subscribed = {val} stored and committed")
        else:
            ctx.bad("R17.1", fi.module, fi.qual, f"mbox.subscribed = {val}; commit_to_db()", f"{m[3:].upper()} no longer stores and commits the flag", fi.node.lineno)


def r17_2(ctx):
    p = ctx.p
    n = 0
    for fi in p.functions.values():
        if fi.module in ("hashers", "pop3_client", "pop3_server"):
            continue
        for c in body_walk(fi.node):
            if not isinstance(c, ast.Compare) or len(c.ops) != 1:
                continue
            sides = [c.left, c.comparators[0]]
            consts = [s for s in sides if isinstance(s, ast.Constant) and isinstance(s.value, str) and s.value.lower() == "inbox"]
            if not consts or not isinstance(c.ops[0], (ast.Eq, ast.NotEq)):
                continue
            other = [s for s in sides if s is not consts[0]][0]
            if isinstance(other, ast.Constant):
                continue
            n += 1
            ctx.analysed(fi)
            if consts[0].value != "inbox":
                # comparing against 'INBOX' exactly (display form) - must be on a value just set to that form
                if consts[0].value == "INBOX":
                    # the upper-case display form only ever comes from the server's own normalisation
                    ctx.ok("R17.2", where(fi), f"{norm(c)}: the server's own display form", nontrivial=False)
                    continue
            if isinstance(other, ast.Call) and call_name(other) in ("lower", "casefold"):
                ctx.ok("R17.2", where(fi), f"{norm(c)} is case-insensitive")
            else:
                ctx.bad("R17.2", fi.module, fi.qual, norm(c), "a mailbox name is compared with 'inbox' case-sensitively while the sibling sites use .lower(): a name such as \"INBOX\" given as a quoted string passes this test (e.g. `DELETE \"INBOX\"` is not refused and the inbox is emptied)", c.lineno)
    ctx.floor("R17.2", n, 6, "comparisons of a mailbox name with 'inbox'")


def _assigned_display_form(fi, name) -> bool:
    """The local was (conditionally) set to the constant 'INBOX' after a lower-case test in this function."""
    for s in body_walk(fi.node):
        if isinstance(s, ast.Assign) and any(isinstance(t, ast.Name) and t.id == name for t in s.targets):
            v = s.value
            if isinstance(v, ast.Constant) and v.value == "INBOX":
                return True
            if isinstance(v, ast.IfExp) and isinstance(v.body, ast.Constant) and v.body.value == "INBOX" and ".lower() == 'inbox'" in norm(v.test):
                return True
    return False


def r17_4(ctx):
    p = ctx.p
    fi = p.func("client.Authenticated.do_list")
    ctx.analysed(fi)
    # find the statement(s) adding \HasChildren and the variable deciding
    dec = None
    for s in body_walk(fi.node):
        if isinstance(s, ast.If) and any("add('\\\\HasChildren')" in norm(b) for b in s.body):
            dec = s
    if dec is None:
        # no recomputation at all: attributes come straight from the table
        ctx.ok("R17.4", where(fi), "LIST reports the stored \\HasChildren/\\HasNoChildren attributes (no recomputation from the result set)")
        return
    var = norm(dec.test)
    defs = [s for s in body_walk(fi.node) if isinstance(s, ast.Assign) and norm(s.targets[0]) == var]
    src_names = set()
    for d in defs:
        src_names |= names_in(d.value)
    if not defs:
        # the deciding expression stands in the test itself (a temporary folded into it by asv/canon.py, or written so)
        src_names |= names_in(dec.test)
        defs = [ast.copy_location(ast.Assign(targets=[ast.Name(id="_children_test_", ctx=ast.Store())], value=dec.test), dec)]  # the test plays the role of the definition
    # provenance of the name set used
    only_filtered = False
    for nm in src_names:
        ds = [s for s in body_walk(fi.node) if isinstance(s, ast.Assign) and norm(s.targets[0]) == nm]
        for d in ds:
            if "results" in names_in(d.value) and not any(k in norm(d.value, 400) for k in ("db.query", "db.fetchone", "list_folders", "SELECT")):
                only_filtered = True
    indep = any(k in " ".join(norm(d.value, 600) for d in defs) for k in ("list_folders", "db.", "SELECT"))
    for nm in src_names:
        for s in body_walk(fi.node):
            src = None
            if isinstance(s, ast.Assign) and any(isinstance(t, ast.Name) and t.id == nm for t in s.targets):
                src = norm(s.value, 800)
            elif isinstance(s, (ast.AsyncFor, ast.For)) and nm in {x.id for x in ast.walk(s.target) if isinstance(x, ast.Name)}:
                src = norm(s.iter, 800)
            if src and any(k in src for k in ("db.query", "db.fetchone", "list_folders", "SELECT name")):
                indep = True
            # the set is also filled from an unfiltered query:  async for (name,) in db.query("SELECT name FROM mailboxes ..."): nm.add(..)
            if isinstance(s, (ast.AsyncFor, ast.For)) and "db.query(" in norm(s.iter, 400) and " regexp " not in norm(s.iter, 400).lower():
                if any(isinstance(c, ast.Call) and call_name(c) in ("add", "update") and isinstance(call_recv(c), ast.Name) and call_recv(c).id == nm for b in s.body for c in ast.walk(b)):
                    indep = True
    if only_filtered and not indep:
        ctx.bad(
            "R17.4", fi.module, fi.qual, norm(defs[0], 100) if defs else var,
            "\\HasChildren/\\HasNoChildren is decided only from the names returned for this LIST's own pattern: `LIST \"\" \"%\"` "
            "with mailboxes a and a/b reports a as \\HasNoChildren because a/b does not match the pattern",
            dec.lineno,
        )
    else:
        ctx.ok("R17.4", where(fi), "\\HasChildren decision consults a pattern-independent source")


LIST_PATH = ("mbox.Mailbox._mbox_pattern_to_re", "mbox.Mailbox.list", "mbox.Mailbox._list_simple", "mbox.Mailbox._list_with_recursivematch", "client.Authenticated.do_list")


def r17_5(ctx):
    """The inbox is stored as 'inbox' and LIST patterns are turned into a regular expression that is matched against the
    stored names.  Unless something on that path is case-insensitive with respect to the inbox, `LIST "" "INBOX"` cannot
    match it (necessary condition, value-independent)."""
    p = ctx.p
    hits = []
    n_re = 0
    for key in LIST_PATH:
        fi = p.func(key)
        ctx.analysed(fi)
        for n in body_walk(fi.node):
            if isinstance(n, ast.Call) and norm(n.func) in ("re.match", "re.fullmatch", "re.search", "re.compile"):
                n_re += 1
                flags = [a for a in list(n.args[2:] if norm(n.func) != "re.compile" else n.args[1:]) + [k.value for k in n.keywords if k.arg == "flags"]]
                if any("IGNORECASE" in norm(f) or norm(f) in ("re.I",) for f in flags):
                    # only counts if the subject or pattern involves the inbox name or the client's pattern
                    hits.append((fi, n, "case-insensitive regular expression test"))
            if isinstance(n, ast.Constant) and isinstance(n.value, str) and "(?i" in n.value and "inbox" in n.value.lower():
                hits.append((fi, n, f"inline case-insensitive group {n.value!r}"))
            if isinstance(n, ast.Compare) and len(n.ops) == 1 and isinstance(n.ops[0], ast.Eq):
                sides = [n.left, n.comparators[0]]
                c = [x for x in sides if isinstance(x, ast.Constant) and isinstance(x.value, str) and x.value.lower() == "inbox"]
                o = [x for x in sides if isinstance(x, ast.Call) and call_name(x) in ("lower", "casefold", "upper")]
                if c and o:
                    # the subject must be the client's pattern (a parameter of the pattern->regex function), not a stored name
                    recv = call_recv(o[0])
                    if fi.key == "mbox.Mailbox._mbox_pattern_to_re" and isinstance(recv, ast.Name) and recv.id in {a.arg for a in fi.node.args.args}:
                        hits.append((fi, n, f"{norm(n)} on the client's pattern"))
    # a pattern list gets the same treatment in the parser (_p_list_mailbox_pattern lower-cases a whole-name INBOX), but a
    # single pattern does not: the provision has to be on the matching path
    pat = p.func("mbox.Mailbox._mbox_pattern_to_re")
    if hits:
        fi, n, how = hits[0]
        ctx.ok("R17.5", where(fi), f"INBOX is matched case-insensitively on the LIST path: {how}")
    else:
        ctx.bad(
            "R17.5", pat.module, pat.qual, "no case-insensitive provision for INBOX on the LIST path",
            "the inbox is stored as `inbox` and the LIST pattern becomes a case-sensitive regular expression over the stored "
            "names: `LIST \"\" \"INBOX\"` (what most clients send) and `LIST \"\" InBox` do not return the inbox",
            pat.node.lineno,
        )


def r17_6(ctx):
    """\\HasChildren of the inbox: the result name is rewritten to the display form INBOX; the names of its children are
    stored under `inbox/`.  The prefix used to look for children must be the stored form."""
    p = ctx.p
    fi = p.func("client.Authenticated.do_list")
    tests = []
    for n in body_walk(fi.node):
        if isinstance(n, ast.Call) and call_name(n) == "startswith" and n.args and isinstance(n.args[0], ast.BinOp) and isinstance(n.args[0].right, ast.Constant) and n.args[0].right.value == "/":
            tests.append(n)
    if not tests:
        ctx.ok("R17.6", where(fi), "no prefix test for children in do_list (stored attributes are reported)", nontrivial=False)
        return
    for t in tests:
        pre = t.args[0].left
        if not isinstance(pre, ast.Name):
            ctx.ok("R17.6", where(fi), f"{norm(t)}: prefix is not a plain local", nontrivial=False)
            continue
        # is the prefix variable in display form?  (bound by a loop over `results`, whose names were display-mapped)
        display_mapped = _assigned_display_form(fi, pre.id) or _loop_var_over_display(fi, pre.id)
        stored_again = any(
            isinstance(s_, ast.Assign) and norm(s_.targets[0]) == pre.id and isinstance(s_.value, ast.IfExp) and isinstance(s_.value.body, ast.Constant) and s_.value.body.value == "inbox"
            for s_ in body_walk(fi.node)
        ) or any(
            isinstance(s_, ast.Assign) and norm(s_.targets[0]) == pre.id and isinstance(s_.value, ast.Call) and call_name(s_.value) == "lower"
            for s_ in body_walk(fi.node)
        )
        # ... or the collection is mapped to display form as a whole prefix (not just the exact name)
        if display_mapped and not stored_again:
            ctx.bad(
                "R17.6", fi.module, fi.qual, norm(t, 80),
                f"children are looked for under `{pre.id} + '/'` where {pre.id} is the display form INBOX, but the children of the inbox "
                "are stored as `inbox/...`: INBOX is always reported \\HasNoChildren",
                t.lineno,
            )
        else:
            ctx.ok("R17.6", where(fi), f"{norm(t, 60)}: prefix `{pre.id}` is in stored form")


def _loop_var_over_display(fi, name) -> bool:
    """`for name, .. in results` where results is filled with names that were display-mapped (INBOX)."""
    for s in body_walk(fi.node):
        if isinstance(s, (ast.For, ast.AsyncFor)) and name in {x.id for x in ast.walk(s.target) if isinstance(x, ast.Name)} and isinstance(s.iter, ast.Name):
            coll = s.iter.id
            # position of `name` in the target tuple
            elts = s.target.elts if isinstance(s.target, ast.Tuple) else [s.target]
            idx = [i for i, e in enumerate(elts) if isinstance(e, ast.Name) and e.id == name]
            for c in calls_in(fi.node):
                if call_name(c) == "append" and isinstance(call_recv(c), ast.Name) and call_recv(c).id == coll and c.args and isinstance(c.args[0], ast.Tuple) and idx:
                    el = c.args[0].elts[idx[0]] if idx[0] < len(c.args[0].elts) else None
                    if isinstance(el, ast.Name) and _assigned_display_form(fi, el.id):
                        return True
    return False


def r17_7(ctx):
    """A reference that ends with the hierarchy delimiter names a level of hierarchy.  _p_mailbox normalises the reference
    with os.path.normpath, which drops a trailing '/': then either the parser puts it back, or it records the fact and
    do_list puts it back before the reference and the pattern are concatenated."""
    p = ctx.p
    pm = p.func("parse.IMAPClientCommand._p_mailbox")
    dl = p.func("client.Authenticated.do_list")
    ctx.analysed(pm)
    ctx.analysed(dl)
    normalises = any(isinstance(c, ast.Call) and call_name(c) == "normpath" for c in calls_in(pm.node))
    if not normalises:
        ctx.ok("R17.7", where(pm), "the reference is not normalised (its trailing delimiter survives)", nontrivial=False)
        return
    # (a) the parser re-appends:  name += "/" / name = name + "/"  under a test of endswith("/")
    def appends_slash(fi):
        out = []
        for s_ in body_walk(fi.node):
            if isinstance(s_, ast.AugAssign) and isinstance(s_.op, ast.Add) and isinstance(s_.value, ast.Constant) and s_.value.value == "/":
                out.append(s_)
            if isinstance(s_, ast.Assign) and isinstance(s_.value, ast.BinOp) and isinstance(s_.value.op, ast.Add) and isinstance(s_.value.right, ast.Constant) and s_.value.right.value == "/" and norm(s_.value.left) == norm(s_.targets[0]):
                out.append(s_)
        return out

    recorded = None
    for s_ in body_walk(pm.node):
        if isinstance(s_, ast.Assign) and isinstance(s_.targets[0], ast.Attribute) and norm(s_.targets[0].value) == "self" and isinstance(s_.value, ast.Call) and call_name(s_.value) == "endswith" and s_.value.args and isinstance(s_.value.args[0], ast.Constant) and s_.value.args[0].value == "/":
            # must be taken from the raw name, i.e. before the normpath statement
            np_line = min(c.lineno for c in calls_in(pm.node) if call_name(c) == "normpath")
            if s_.lineno < np_line:
                recorded = s_.targets[0].attr
    if appends_slash(pm) and any("endswith" in norm(x, 300) or "is_level" in norm(x, 300) for x in body_walk(pm.node) if isinstance(x, ast.If) and any(a in walk_no_nested(x) for a in appends_slash(pm))):
        ctx.ok("R17.7", where(pm), "the parser puts the trailing delimiter of a reference back after normalising it")
        return
    if recorded:
        par = parmap(dl)
        for a in appends_slash(dl):
            cur = a
            while cur in par:
                cur = par[cur]
                if isinstance(cur, ast.If) and f"cmd.{recorded}" in norm(cur.test, 300):
                    # the variable must be what Mailbox.list gets as reference
                    tgt = norm(a.target if isinstance(a, ast.AugAssign) else a.targets[0])
                    for c in calls_in(dl.node):
                        if norm(c.func) == "Mailbox.list" and c.args and norm(c.args[0]) == tgt:
                            ctx.ok("R17.7", where(dl), f"the parser records `{recorded}` from the raw reference; do_list restores the delimiter on `{tgt}` before Mailbox.list")
                            return
    ctx.bad(
        "R17.7", dl.module, dl.qual, "reference level delimiter lost",
        "the LIST reference is normalised with os.path.normpath (which drops a trailing '/') and nothing puts the delimiter "
        "back: `LIST \"a/\" \"%\"` becomes the pattern `a%` and returns a, ab, ... instead of the children of a",
        dl.node.lineno,
    )


def _folds_inbox_prefix(fi) -> str | None:
    """The function rewrites <name> when its first hierarchy level equals 'inbox' case-insensitively."""
    firsts = {}  # local holding the first level -> the name it was split from
    for s_ in body_walk(fi.node):
        if isinstance(s_, ast.Assign) and isinstance(s_.value, ast.Call) and call_name(s_.value) in ("partition", "split") and s_.value.args and isinstance(s_.value.args[0], ast.Constant) and s_.value.args[0].value == "/" and isinstance(call_recv(s_.value), ast.Name):
            t = s_.targets[0]
            if isinstance(t, ast.Tuple) and t.elts and isinstance(t.elts[0], ast.Name):
                firsts[t.elts[0].id] = call_recv(s_.value).id
        if isinstance(s_, ast.Assign) and isinstance(s_.value, ast.Subscript) and isinstance(s_.value.value, ast.Call) and call_name(s_.value.value) in ("partition", "split") and isinstance(s_.value.slice, ast.Constant) and s_.value.slice.value == 0 and isinstance(s_.targets[0], ast.Name) and isinstance(call_recv(s_.value.value), ast.Name):
            firsts[s_.targets[0].id] = call_recv(s_.value.value).id
    for iff in body_walk(fi.node):
        if not isinstance(iff, ast.If):
            continue
        if not (isinstance(iff.test, ast.BoolOp) and isinstance(iff.test.op, ast.And)) and not isinstance(iff.test, ast.Compare):
            continue  # `<has a delimiter> and <first level is inbox>` (or the bare comparison)
        for cmp_, pos_ in polarity_atoms(iff.test):
            if not pos_:
                continue
            if isinstance(cmp_, ast.Compare) and len(cmp_.ops) == 1 and isinstance(cmp_.ops[0], ast.Eq) and isinstance(cmp_.left, ast.Call) and call_name(cmp_.left) in ("lower", "casefold") and isinstance(cmp_.comparators[0], ast.Constant) and cmp_.comparators[0].value == "inbox":
                r = call_recv(cmp_.left)
                if isinstance(r, ast.Name) and r.id in firsts:
                    name = firsts[r.id]
                    if any(isinstance(a, ast.Assign) and norm(a.targets[0]) == name and any(isinstance(c, ast.Constant) and c.value == "inbox" for c in ast.walk(a.value)) for a in walk_no_nested(iff)):
                        return f"`{name}` is rewritten to start with 'inbox' when its first level `{r.id}` equals it case-insensitively"
    return None


def r17_8(ctx):
    """INBOX is case-insensitive as the first level of a name too.  The name parser and the LIST pattern compiler must agree
    (sibling agreement): both fold the first level, or a child created as INBOX/x lives outside the inbox / cannot be listed
    by the spelling it was created with."""
    p = ctx.p
    a = p.func("parse.IMAPClientCommand._p_mailbox")
    b = p.func("mbox.Mailbox._mbox_pattern_to_re")
    ctx.analysed(a)
    ctx.analysed(b)
    fa, fb = _folds_inbox_prefix(a), _folds_inbox_prefix(b)
    if fa and fb:
        ctx.ok("R17.8", where(a), f"names: {fa}")
        ctx.ok("R17.8", where(b), f"patterns: {fb}")
    elif not fa and not fb:
        ctx.bad(
            "R17.8", a.module, a.qual, "first level INBOX not folded",
            "only a name that is INBOX as a whole is mapped to the inbox folder: `CREATE INBOX/lists` makes a mailbox in a separate "
            "folder `INBOX` next to the inbox - LIST shows it under INBOX, but it is not a child of the inbox (\\HasNoChildren, not "
            "reachable as inbox/lists)",
            a.node.lineno,
        )
    else:
        bad = b if fa else a
        ctx.bad(
            "R17.8", bad.module, bad.qual, "first level INBOX folded on one side only",
            "the name parser and the LIST pattern compiler disagree on the case of a first level INBOX: a mailbox created as INBOX/x "
            "is stored as inbox/x but `LIST \"\" INBOX/%` looks for INBOX/x (or the other way round)",
            bad.node.lineno,
        )


def r17_9(ctx):
    """INBOX can be neither deleted nor created: the refusing arm of the guard is the one where the name *is* the inbox
    (arm-exact, the comparison itself is R17.2's), it is the first statement that can have an effect, and RENAME takes the
    inbox branch exactly for the inbox."""
    p = ctx.p
    for key, verb in (("mbox.Mailbox.delete", "DELETE"), ("mbox.Mailbox.create", "CREATE")):
        fi = p.func(key)
        ctx.analysed(fi)
        name = fi.node.args.args[1].arg
        ok = None
        for st in fi.node.body:
            if isinstance(st, ast.Expr) and isinstance(st.value, ast.Constant):
                continue
            if isinstance(st, ast.Expr) and isinstance(st.value, ast.Call) and is_log_call(st.value):
                continue
            if isinstance(st, ast.If) and any(isinstance(b, ast.Raise) for b in st.body):
                for a, pos in polarity_atoms(st.test):
                    if isinstance(a, ast.Compare) and isinstance(a.left, ast.Call) and call_name(a.left) in ("lower", "casefold") and norm(call_recv(a.left)) == name and isinstance(a.comparators[0], ast.Constant) and a.comparators[0].value == "inbox":
                        ok = (isinstance(a.ops[0], ast.Eq) and pos) or (isinstance(a.ops[0], ast.NotEq) and not pos)
                        break
                if ok is not None:
                    break
                continue  # other argument guards may come first
            break  # first statement with an effect reached
        if ok:
            ctx.ok("R17.9", where(fi), f"{verb}: refused exactly when the name is the inbox, before anything else happens")
        else:
            ctx.bad(
                "R17.9", fi.module, fi.qual, f"if {name}.lower() == 'inbox': raise",
                f"{verb} no longer starts by refusing the inbox (guard missing, negated or after the first effect): "
                + ("`DELETE INBOX` empties the inbox" if verb == "DELETE" else "`CREATE INBOX` is not refused / every other name is"),
                fi.node.lineno,
            )
    rn = p.func("mbox.Mailbox.rename")
    ctx.analysed(rn)
    okr = False
    for st in body_walk(rn.node):
        if isinstance(st, ast.If) and st.orelse:
            for a, pos in polarity_atoms(st.test):
                if isinstance(a, ast.Compare) and isinstance(a.left, ast.Call) and call_name(a.left) in ("lower", "casefold") and isinstance(a.comparators[0], ast.Constant) and a.comparators[0].value == "inbox":
                    is_inbox_in_body = (isinstance(a.ops[0], ast.Eq) and pos) or (isinstance(a.ops[0], ast.NotEq) and not pos)
                    inbox_arm, other_arm = (st.body, st.orelse) if is_inbox_in_body else (st.orelse, st.body)
                    if any(call_name(c) == "_helper_rename_inbox" for s_ in inbox_arm for c in calls_in(s_)) and any(call_name(c) == "_helper_rename_folder" for s_ in other_arm for c in calls_in(s_)):
                        okr = True
    if okr:
        ctx.ok("R17.9", where(rn), "RENAME: the inbox goes through _helper_rename_inbox (messages move, inbox stays), every other mailbox through _helper_rename_folder")
    else:
        ctx.bad("R17.9", rn.module, rn.qual, "if mbox.name.lower() != 'inbox': _helper_rename_folder else _helper_rename_inbox", "RENAME no longer takes the inbox branch exactly for the inbox: RENAME INBOX renames the inbox folder away (or an ordinary mailbox is treated as the inbox)", rn.node.lineno)


def r17_10(ctx):
    """Mailbox names are case-sensitive; only the name INBOX is not (R17.5 / R17.8 deal with that on the pattern side).  The
    REGEXP function LIST's query uses must therefore match case-sensitively: a blanket IGNORECASE makes `LIST "" work` return
    `Work`, and `LIST "Work/" %` the children of `work`."""
    p = ctx.p
    fi = p.func("db.regexp")
    ctx.analysed(fi)
    bad = []
    for n in body_walk(fi.node):
        if isinstance(n, ast.Call) and norm(n.func) in ("re.compile", "re.match", "re.search", "re.fullmatch"):
            flags = list(n.args[1:] if norm(n.func) == "re.compile" else n.args[2:]) + [k.value for k in n.keywords if k.arg == "flags"]
            if any("IGNORECASE" in norm(f) or norm(f) == "re.I" for f in flags):
                bad.append(n)
        if isinstance(n, ast.Call) and call_name(n) in ("lower", "upper", "casefold") and isinstance(call_recv(n), ast.Name) and call_recv(n).id in {a.arg for a in fi.node.args.args}:
            bad.append(n)
        if isinstance(n, ast.Constant) and isinstance(n.value, str) and "(?i" in n.value:
            bad.append(n)
    if bad:
        ctx.bad("R17.10", fi.module, fi.qual, norm(bad[0], 80), "the REGEXP function behind LIST/LSUB matches case-insensitively: mailboxes whose names differ only in case are listed for each other's patterns and references", bad[0].lineno)
    else:
        ctx.ok("R17.10", where(fi), "REGEXP matches names case-sensitively (INBOX is folded on the pattern side)")


def r17_12(ctx):
    """\\HasChildren / \\HasNoChildren are recomputed in do_list against *every* mailbox the database knows, because what
    Mailbox.list() returned is only what matched the pattern and the selection options (SUBSCRIBED, SPECIAL-USE, `%`).  The
    query that collects those names is reached on every path to the statements that set the attribute - a shortcut that skips
    it for some argument combination reports a mailbox whose children were filtered out as \\HasNoChildren."""
    p = ctx.p
    fi = p.func("client.Authenticated.do_list")
    g = ctx.cfg(fi)
    q = {n.id for n in g.nodes if n.ast is not None and n.kind in ("iter", "stmt") and "select name from mailboxes" in norm(n.ast, 400).lower()}
    setters = [n.id for n in g.nodes if n.ast is not None and n.kind == "stmt" and "HasChildren" in norm(n.ast, 300) and any(call_name(c) in ("add", "discard", "remove") for c in calls_in(n.ast))]
    ctx.require(q, "do_list: query of all mailbox names not found")
    ctx.require(setters, "do_list: statements that set the children attributes not found")
    w = flow.escapes_without(g, g.entry, lambda n: n in q, setters)
    ctx.paths_explored += 1
    if w is None:
        ctx.ok("R17.12", where(fi), "the children flags are recomputed against all mailbox names of the database on every path")
    else:
        ctx.bad("R17.12", fi.module, fi.qual, "SELECT name FROM mailboxes ... skipped on some path", "do_list can set the children attributes without having collected all mailbox names from the database: under a selection option or pattern that filters the children out of the results (LIST (SUBSCRIBED) with pattern *) a mailbox with children is reported as having none", g.nodes[w[-1]].line, flow.fmt_path(g, w))


def r17_13(ctx):
    """DELETE of a mailbox that has inferiors (or is subscribed) keeps it as a \\Noselect placeholder: still listed, still in
    active_mailboxes, still the target of a later RENAME or of the DELETE that finally removes it.  Those commands queue on
    it, so the placeholder keeps its management task: Mailbox.shutdown() belongs to the arm that removes the folder, and is
    not on any path that goes on to mark the mailbox \\Noselect."""
    p = ctx.p
    fi = p.func("mbox.Mailbox.delete")
    g = ctx.cfg(fi)
    shut = [n.id for n in g.nodes if n.ast is not None and n.kind == "stmt" and any(call_name(c) == "shutdown" for c in calls_in(n.ast))]
    keep = [n.id for n in g.nodes if n.ast is not None and n.kind == "stmt" and "Noselect" in norm(n.ast, 200) and any(call_name(c) == "add" for c in calls_in(n.ast))]
    ctx.require(shut, "Mailbox.delete: call of shutdown() not found")
    ctx.require(keep, "Mailbox.delete: the placeholder arm (attributes.add of Noselect) not found")
    after = flow.reach(g, shut, flow.NORMAL)
    ctx.paths_explored += 1
    if any(k in after for k in keep):
        ctx.bad("R17.13", fi.module, fi.qual, "mbox.shutdown() on the path to the \\Noselect placeholder", "DELETE shuts the mailbox object down (management task cancelled) also when it only turns it into a \\Noselect placeholder: the placeholder stays listed and active but nobody serves its queue - the RENAME that should move it and the DELETE that should finally remove it wait for the watchdog, and the name stays in LIST/LSUB for good", g.nodes[shut[0]].line)
    else:
        ctx.ok("R17.13", where(fi), "shutdown() is reached only on the arm that removes the folder; the \\Noselect placeholder keeps its management task")


def r17_14(ctx):
    """LIST and LSUB share do_list(); what tells them apart is the parameter `lsub`.  An untagged response that names its
    command in constant text - `* LIST ...` / `* LSUB ...` - is pushed only on paths where `lsub` has the matching value
    (or the name is computed from it).  The delimiter probe (`"" ""`) answered `* LIST` for both."""
    p = ctx.p
    fi = p.func("client.Authenticated.do_list")
    ctx.analysed(fi)
    ctx.require("lsub" in [a.arg for a in fi.node.args.args], "do_list(): parameter `lsub` vanished", anchor=True)
    g = ctx.cfg(fi)

    def classify(e):
        return "lsub" if isinstance(e, ast.Name) and e.id == "lsub" else None

    n = 0
    for nd in g.nodes:
        if nd.ast is None or nd.kind != "stmt":
            continue
        for c in [nd.ast]:
            for a in [x for x in ast.walk(nd.ast) if isinstance(x, (ast.JoinedStr, ast.Constant)) and not any(isinstance(y, ast.JoinedStr) and x is not y and any(x is z for z in ast.walk(y)) for y in ast.walk(nd.ast))]:
                parts = merge_consts(fstring_parts(a) or [])
                head = parts[0] if parts and isinstance(parts[0], str) else ""
                m = re.match(r"\* (LIST|LSUB)\b", head)
                if not m:
                    continue
                n += 1
                wrong = m.group(1) == "LIST"  # text LIST must not be reachable with lsub true, and vice versa
                hit = flow.feasible_paths_exist(g, g.entry, {nd.id}, classify, labels=flow.NORMAL, accept=lambda _n, facts, w=wrong: facts.get("lsub") is not (not w))
                ctx.paths_explored += 1
                if hit:
                    ctx.bad("R17.14", fi.module, fi.qual, norm(a, 70), f"`* {m.group(1)} ...` is pushed on a path where `lsub` is not known to be {not wrong}: the other command of the pair is answered under the wrong name", a.lineno, flow.fmt_path(g, hit[0]))
                else:
                    ctx.ok("R17.14", where(fi), f"`* {m.group(1)}` only where lsub is {not wrong}")
    ctx.floor("R17.14", n, 1, "untagged LIST/LSUB lines with the name in constant text")


def r17_15(ctx):
    """RENAME INBOX moves the messages one by one into the new mailbox.  Flags travel with them: for every sequence the old
    key is in, the key the message got in the new folder is added to the same sequence of the table that becomes the new
    mailbox's `sequences` (and is written to its `.mh_sequences`).  A message that arrives flagged \\Seen / \\Answered /
    \\Deleted in INBOX and unflagged under the new name has not been moved intact."""
    from .common import pm_of

    p = ctx.p
    fi = p.func("mbox._helper_rename_inbox")
    ctx.analysed(fi)
    pm = pm_of(p, fi)
    carry = [
        "for seq in inbox.sequences.keys():\n    if key in inbox.sequences[seq]:\n        sequences[seq].add(new_msg_key)",
        "for seq in inbox.sequences:\n    if key in inbox.sequences[seq]:\n        sequences[seq].add(new_msg_key)",
        "for seq, keys in inbox.sequences.items():\n    if key in keys:\n        sequences[seq].add(new_msg_key)",
    ]
    if any(pm.has(x) for x in carry):
        ctx.ok("R17.15", where(fi), "each moved message's new key joins every sequence its old key was in")
    else:
        ctx.bad("R17.15", fi.module, fi.qual, carry[0].replace("\n", " "), "RENAME INBOX no longer carries the flags of the moved messages over to their new keys: the messages arrive under the new name without \\Seen / \\Answered / \\Flagged / \\Deleted", fi.node.lineno)
    stored = pm.has("new_mbox.sequences = sequences") and pm.has("new_mbox.set_sequences_in_folder(sequences)")
    if stored:
        ctx.ok("R17.15", where(fi), "the carried table becomes the new mailbox's sequences and is written to its folder")
    else:
        ctx.bad("R17.15", fi.module, fi.qual, "new_mbox.sequences = sequences; new_mbox.set_sequences_in_folder(sequences)", "the flag table built while moving the inbox's messages is not what the new mailbox keeps / writes to .mh_sequences", fi.node.lineno)


# who may make a directory below the mail directory (a mailbox folder): every such directory has a row in `mailboxes` -
# LIST reads the table, not the disk - and the row is written by get_mailbox() / Mailbox.new() on the way
DIR_MAKERS = {
    "mbox.Mailbox.create": ({"MH"}, "makes each element of the path (`MH(maildir / name)`) and then activates each of them through get_mailbox(), which gives it its row"),
    "mbox._helper_rename_folder": ({"symlink"}, "a symlink new -> old for the duration of the rename (removed again), no directory of its own"),
    "user_server.IMAPUserServer.__init__": ({"MH"}, "the mail directory itself"),
    "mh.MH.get_folder": ({"MH"}, "opens, create=False"),
    "mh.MH.add_folder": ({"MH"}, "MH's own folder creation, used by the tests' fixtures only"),
    "mbox.Mailbox.copy": ({"TemporaryDirectory"}, "a TemporaryDirectory outside the mail directory"),
    "utils.setup_logging": ({"mkdir", "makedirs"}, "the log directory"),
    "utils.setup_asyncio_logging": ({"mkdir", "makedirs"}, "the log directory"),
}
_DIR_CALLS = ("makedirs", "mkdir", "mkdtemp", "TemporaryDirectory", "add_folder", "symlink")


def r17_16(ctx):
    """LIST and LSUB answer from the `mailboxes` table; SELECT, CREATE and RENAME look at the directories.  The two agree
    only while every directory below the mail directory was made by the one path that also writes its row (Mailbox.create,
    element by element).  A directory made anywhere else - `makedirs(new_dir.parent)` in the rename helper to be helpful about
    missing superiors - exists, is selectable, refuses a later CREATE as `already exists`, and is listed by nobody."""
    p = ctx.p
    n = 0
    for fi in p.functions.values():
        if fi.module in ("asimapd", "asimapd_user", "set_password", "trace", "db", "auth", "hashers", "throttle"):
            continue
        for c in calls_in(fi.node):
            nm = call_name(c)
            is_mh_ctor = isinstance(c.func, ast.Name) and c.func.id == "MH"
            if nm not in _DIR_CALLS and not is_mh_ctor:
                continue
            if nm == "mkdir" and fi.module == "utils":
                pass
            n += 1
            key = fi.key if fi.key in DIR_MAKERS else (f"{fi.module}.{fi.qual.split('.')[0]}" if f"{fi.module}.{fi.qual.split('.')[0]}" in DIR_MAKERS else None)
            what = "MH" if is_mh_ctor else nm
            if key and what in DIR_MAKERS[key][0]:
                ctx.ok("R17.16", where(fi), f"{norm(c, 40)}: {DIR_MAKERS[key][1]}", nontrivial=False)
            else:
                ctx.bad("R17.16", fi.module, fi.qual, norm(c, 80), f"{fi.qual} makes a directory (`{norm(c, 50)}`) - it is not one of the sites that also give the directory its row in `mailboxes`: a mailbox folder made here exists on disk (selectable, `CREATE` of its name is refused) but is never listed", c.lineno)
    ctx.floor("R17.16", n, 3, "directory-making calls")


def r17_17(ctx):
    """Mailbox.create() makes every missing element of the path and then walks the whole chain, leaf to root, activating
    each element (get_mailbox: that is what gives a new intermediate its row in `mailboxes`) and refreshing its
    \\HasChildren.  The walk visits *every* element - no break, no early return, no filter on the elements: an intermediate
    that is skipped exists on disk, is not listed, and turns up as a new mailbox (fresh UIDVALIDITY) at the next start-up
    scan."""
    p = ctx.p
    fi = p.func("mbox.Mailbox.create")
    ctx.analysed(fi)
    loops = [n for n in body_walk(fi.node) if isinstance(n, (ast.For, ast.AsyncFor)) and any(call_name(c) == "get_mailbox" for c in calls_in(n))]
    ctx.floor("R17.17", len(loops), 1, "chain walks in Mailbox.create()")
    for lp in loops:
        early = [x for st in lp.body for x in walk_no_nested(st) if isinstance(x, (ast.Break, ast.Return))]
        # a `continue` in front of the activation skips an element as well
        skips = []
        for st in lp.body:
            if any(call_name(c) == "get_mailbox" for c in calls_in(st)):
                break
            skips += [x for x in walk_no_nested(st) if isinstance(x, ast.Continue)]
        filtered = isinstance(lp.iter, (ast.ListComp, ast.GeneratorExp)) and any(g_.ifs for g_ in lp.iter.generators) or (isinstance(lp.iter, ast.Subscript))
        if early or skips or filtered:
            x = (early or skips or [lp])[0]
            ctx.bad("R17.17", fi.module, fi.qual, norm(x, 60) if not isinstance(x, (ast.For, ast.AsyncFor)) else norm(lp.iter, 60), "the walk over the created chain can stop before (or skip) an element: that intermediate directory gets no row in `mailboxes` - it is not listed while the server runs and appears as a new mailbox after the next restart", getattr(x, "lineno", lp.lineno))
        else:
            ctx.ok("R17.17", where(fi), "every element of the created path is activated (and so has its row)")


def run(ctx):
    ctx.do(r17_8)
    ctx.do(r17_9)
    ctx.do(r17_10)
    ctx.do(r17_1)
    ctx.do(r17_2)
    ctx.do(r17_4)
    ctx.do(r17_5)
    ctx.do(r17_6)
    ctx.do(r17_7)
    from . import c05
    ctx.do(c05.r5_5)
    ctx.do(r17_12)
    ctx.do(r17_13)
    ctx.do(r17_14)
    ctx.do(r17_15)
    ctx.do(r17_16)
    ctx.do(r17_17)
    from . import c08 as _c08
    ctx.do(_c08.r8_3)  # the inbox and what lies below it are recognised in every spelling
    from . import c12 as _c12
    ctx.do(_c12.r12_8)  # the table LIST reads from: rows change through exact keys (and the two confirmed pattern sites)
    ctx.do(_c12.r12_2)  # the subscription flag LSUB and DELETE consult is read back after a restart
    ctx.note("R17.3 validate-before-mutate for create/delete/rename is decided by C05 R5.5")
