"""C17 - the mailbox list follows the CREATE/DELETE/RENAME/SUBSCRIBE history.

 R17.1 both sources of truth (file system and mailboxes table / active cache) are updated together and committed
 R17.2 every comparison of a mailbox name with "inbox" is case-insensitive
 R17.3 validate-before-mutate for namespace operations (shares C05 R5.5)
 R17.4 \\HasChildren is not derived from the pattern-filtered result set
"""
from __future__ import annotations

import ast

from .. import flow
from ..astutil import body_walk, call_name, call_recv, calls_in, names_in, norm, strip_await, walk_no_nested
from .common import parmap, where

PROP = "C17"
EXPLANATION = (
    "(R17.1) Mailbox.create registers in the database every directory level it created (the registration loop ranges "
    "over the whole list the creation loop filled) with check_set_haschildren_attr + commit_to_db; Mailbox.delete, on the "
    "path that removes the folder, also deletes the mailboxes and sequences rows, commits, and drops the active-cache "
    "entry, and refreshes the parent's children flags; _helper_rename_folder updates the name column of every mailbox of "
    "the subtree, removes the old key from the active cache and inserts the new one, commits, renames the directory and "
    "refreshes both parents; SUBSCRIBE/UNSUBSCRIBE store the flag and commit; (R17.2) every comparison of a "
    "mailbox-name value with the constant 'inbox' applies lower()/casefold() to it; (R17.3) see C05 R5.5; (R17.4) in "
    "do_list the decision that sets \\HasChildren/\\HasNoChildren does not depend only on the names returned for this "
    "LIST's pattern. Decides these clauses, not '*'/'%' matching semantics or model equality over histories."
)
RULE_TEXT = "instances: each namespace effect with its matching db/cache effect; each 'inbox' comparison site; the \\HasChildren decision; non-trivial = CFG/def-use query"
ASSUMPTIONS = ["the mailboxes table and the directory tree are the only two sources of truth for the namespace", "not decided: pattern semantics on values; model equality over histories with restarts"]
LEVEL_TEXT = (
    "Static pairing of file-system effects with their database/cache effects in create/delete/rename, sibling agreement of "
    "every INBOX comparison, and def-use provenance of the \\HasChildren decision."
)
LEVEL_NOTE = "Structural clauses only. Trusted: CPython ast."
TECHNIQUE = "effect pairing (must-pass-through) + sibling agreement + def-use provenance"
DESIGN_REF = "DESIGN.md section 3 / C17"


def r17_1(ctx):
    p = ctx.p
    # ---- create
    cr = p.func("mbox.Mailbox.create")
    ctx.analysed(cr)
    mk = [n for n in body_walk(cr.node) if isinstance(n, ast.For) and any(isinstance(c, ast.Call) and isinstance(c.func, ast.Name) and c.func.id == "MH" for s in n.body for c in ast.walk(s))]
    ctx.require(mk, "create(): directory creation loop not found")
    filled = None
    for s in mk[0].body:
        for c in ast.walk(s):
            if isinstance(c, ast.Call) and call_name(c) == "append" and isinstance(call_recv(c), ast.Name) and c.args and "mbox_name" in norm(c.args[0]):
                filled = call_recv(c).id
    ctx.require(filled, "create(): list of created names not found")
    reg = [n for n in body_walk(cr.node) if isinstance(n, ast.For) and n is not mk[0] and any(call_name(c) == "get_mailbox" for s in n.body for c in calls_in(s))]
    ctx.require(reg, "create(): registration loop not found")
    it = reg[0].iter
    whole = (isinstance(it, ast.Name) and it.id == filled) or (isinstance(it, ast.Call) and isinstance(it.func, ast.Name) and it.func.id in ("reversed", "list", "sorted") and norm(it.args[0]) == filled)
    body = " ".join(norm(s, 300) for s in reg[0].body)
    if whole and "check_set_haschildren_attr()" in body and "commit_to_db()" in body:
        ctx.ok("R17.1", where(cr), f"every created level (whole list `{filled}`) is registered: get_mailbox + check_set_haschildren_attr + commit_to_db")
    else:
        ctx.bad("R17.1", cr.module, cr.qual, f"for ... in {norm(it)}", f"CREATE makes a directory for every path level but registers only `{norm(it)}` in the database: the other levels exist on disk and are missing from LIST until something touches them", reg[0].lineno)
    # the creation loop covers every prefix of the name
    from .common import pm_of

    pcr = pm_of(p, cr)
    if pcr.has("for chain_name in name.split('/'):\n    mbox_chain.append(chain_name)\n    ...\n    mbox_name = '/'.join(mbox_chain)\n    ...\n    MH(server.maildir / mbox_name)\n    mbox_names.append(mbox_name)"):
        ctx.ok("R17.1", where(cr), "a directory is created for every '/'-prefix of the name")
    else:
        ctx.bad("R17.1", cr.module, cr.qual, "for chain_name in name.split('/')", "CREATE no longer creates every intermediate level", mk[0].lineno)
    # ---- delete
    dl = p.func("mbox.Mailbox.delete")
    g = ctx.cfg(dl)
    rm = {n.id for n in g.nodes if n.ast is not None and n.kind == "stmt" and any(call_name(c) == "remove_folder" for c in calls_in(n.ast))}
    ctx.require(rm, "delete(): remove_folder not found")
    steps = [
        ("DELETE FROM mailboxes", lambda a: "delete from mailboxes" in norm(a, 300).lower()),
        ("DELETE FROM sequences", lambda a: "delete from sequences" in norm(a, 300).lower()),
        ("db.commit()", lambda a: "db.commit()" in norm(a)),
        ("removal from active_mailboxes", lambda a: "del server.active_mailboxes[name]" in norm(a) or "active_mailboxes.pop(" in norm(a)),
    ]
    for what, pred in steps:
        must = {n.id for n in g.nodes if n.ast is not None and n.kind == "stmt" and pred(n.ast)}
        # the cache removal sits under `if name in server.active_mailboxes` - accept its test node as passing
        if what.startswith("removal"):
            must |= {n.id for n in g.nodes if n.kind == "test" and "in server.active_mailboxes" in norm(n.ast)}
        w = flow.escapes_without(g, next(iter(rm)), lambda n: n in must, [g.exit]) if must else [0]
        ctx.paths_explored += 1
        if w:
            ctx.bad("R17.1", dl.module, dl.qual, what, f"after the folder is removed from disk DELETE can return without {what}: the mailbox stays listed / cached although it no longer exists", g.nodes[next(iter(rm))].line)
        else:
            ctx.ok("R17.1", where(dl), f"folder removal is followed by {what}")
    pdl = pm_of(p, dl)
    if pdl.has("parent_name = os.path.dirname(name)") and pdl.has("if parent_name:\n    ...\n    parent_mbox = await server.get_mailbox(parent_name)\n    parent_mbox.check_set_haschildren_attr()\n    await parent_mbox.commit_to_db()"):
        ctx.ok("R17.1", where(dl), "parent's children flags refreshed and committed")
    else:
        ctx.bad("R17.1", dl.module, dl.qual, "parent_mbox.check_set_haschildren_attr(); commit_to_db()", "DELETE no longer refreshes the parent's \\HasChildren state", dl.node.lineno)
    if pdl.has("inferior_mailboxes = mbox.mailbox.list_folders()") and pdl.has("if inferior_mailboxes or mbox.subscribed:\n    ...\n    mbox.attributes.add('\\\\Noselect')\n    ..."):
        ctx.ok("R17.1", where(dl), "a mailbox with inferiors (or subscribed) becomes a \\Noselect placeholder instead of being removed")
    else:
        ctx.bad("R17.1", dl.module, dl.qual, "\\Noselect placeholder arm", "DELETE no longer keeps a \\Noselect placeholder for a mailbox with inferiors", dl.node.lineno)
    # ---- rename
    rf = p.func("mbox._helper_rename_folder")
    inner = p.func("mbox._helper_rename_folder._do_rename_folder")
    ctx.analysed(rf)
    ctx.analysed(inner)
    pin = pm_of(p, inner)
    pin.has("mbox_old_name = old_mbox.name")
    for okv, what in (
        (pin.has("await srvr.db.execute('UPDATE mailboxes SET name=? WHERE id=?', (mbox_new_name, old_id))"), "name column updated to the new name for that id"),
        (pin.has("mb = srvr.active_mailboxes[mbox_old_name]") and (pin.has("del srvr.active_mailboxes[mbox_old_name]") or pin.has("srvr.active_mailboxes.pop(mbox_old_name)")), "old name removed from the active cache"),
        (pin.has("srvr.active_mailboxes[mbox_new_name] = mb"), "mailbox inserted into the active cache under the new name"),
        (pin.has("mb.name = mbox_new_name") and pin.has("mb.mailbox = srvr.mailbox.get_folder(mbox_new_name)"), "in-memory name and MH handle switched to the new name"),
    ):
        if okv:
            ctx.ok("R17.1", where(inner), what)
        else:
            ctx.bad("R17.1", inner.module, inner.qual, what, f"RENAME lost: {what} - something stays reachable under the old name (e.g. re-creating the old name returns the renamed mailbox and never gets a row of its own)", inner.node.lineno)
    prf = pm_of(p, rf)
    prf.has("srvr = mbox.server")
    prf.has("old_name = mbox.name")
    tr = norm(rf.node, 20000)
    for okv, what in (
        (prf.has("srvr.db.query('SELECT name,id FROM mailboxes WHERE name=? OR name LIKE ?', (old_name, f'{old_name}/%'))"), "the whole subtree (name and name/%) is selected for renaming"),
        (prf.has("mbox_new_name = new_name + mbox_old_name[len(old_name):]"), "each subtree member keeps its suffix under the new prefix"),
        (prf.has("await srvr.db.commit()"), "the name updates are committed"),
        (prf.has("old_dir = mbox_msg_path(srvr.mailbox, old_name)") and prf.has("new_dir = mbox_msg_path(srvr.mailbox, new_name)") and prf.has("await aiofiles.os.rename(old_dir, new_dir)"), "the directory is renamed"),
        (tr.count("check_set_haschildren_attr()") >= 2, "old and new parents' children flags refreshed"),
    ):
        if okv:
            ctx.ok("R17.1", where(rf), what)
        else:
            ctx.bad("R17.1", rf.module, rf.qual, what, f"RENAME lost: {what}", rf.node.lineno)
    # every member of to_change is renamed (both branches of the inner if call the helper)
    lp = [n for n in body_walk(rf.node) if isinstance(n, ast.For) and "to_change.items()" in norm(n.iter)]
    if lp and all(any(call_name(c) == "_do_rename_folder" for s in br for c in calls_in(s)) for i in [x for x in lp[0].body if isinstance(x, ast.If)] for br in (i.body, i.orelse)) or (lp and any(call_name(c) == "_do_rename_folder" for s in lp[0].body if not isinstance(s, ast.If) for c in calls_in(s))):
        ctx.ok("R17.1", where(rf), "every selected mailbox of the subtree is renamed")
    else:
        ctx.bad("R17.1", rf.module, rf.qual, "for old, (...) in to_change.items(): _do_rename_folder", "not every mailbox of the renamed subtree is updated", rf.node.lineno)
    # ---- subscribe
    for m, val in (("do_subscribe", True), ("do_unsubscribe", False)):
        fi = p.func(f"client.Authenticated.{m}")
        psub = pm_of(p, fi)
        if psub.has("mbox = await self.server.get_mailbox(cmd.mailbox_name)") and psub.has(f"mbox.subscribed = {val}") and psub.has("await mbox.commit_to_db()"):
            ctx.ok("R17.1", where(fi), f"subscribed = {val} stored and committed")
        else:
            ctx.bad("R17.1", fi.module, fi.qual, f"mbox.subscribed = {val}; commit_to_db()", f"{m[3:].upper()} no longer stores and commits the flag", fi.node.lineno)


def r17_2(ctx):
    p = ctx.p
    n = 0
    for fi in p.functions.values():
        if fi.module in ("hashers", "pop3_client", "pop3_server"):
            continue
        for c in body_walk(fi.node):
            if not isinstance(c, ast.Compare) or len(c.ops) != 1:
                continue
            sides = [c.left, c.comparators[0]]
            consts = [s for s in sides if isinstance(s, ast.Constant) and isinstance(s.value, str) and s.value.lower() == "inbox"]
            if not consts or not isinstance(c.ops[0], (ast.Eq, ast.NotEq)):
                continue
            other = [s for s in sides if s is not consts[0]][0]
            if isinstance(other, ast.Constant):
                continue
            n += 1
            ctx.analysed(fi)
            if consts[0].value != "inbox":
                # comparing against 'INBOX' exactly (display form) - must be on a value just set to that form
                if consts[0].value == "INBOX":
                    # the upper-case display form only ever comes from the server's own normalisation
                    ctx.ok("R17.2", where(fi), f"{norm(c)}: the server's own display form", nontrivial=False)
                    continue
            if isinstance(other, ast.Call) and call_name(other) in ("lower", "casefold"):
                ctx.ok("R17.2", where(fi), f"{norm(c)} is case-insensitive")
            else:
                ctx.bad("R17.2", fi.module, fi.qual, norm(c), "a mailbox name is compared with 'inbox' case-sensitively while the sibling sites use .lower(): a name such as \"INBOX\" given as a quoted string passes this test (e.g. `DELETE \"INBOX\"` is not refused and the inbox is emptied)", c.lineno)
    ctx.floor("R17.2", n, 6, "comparisons of a mailbox name with 'inbox'")


def _assigned_display_form(fi, name) -> bool:
    """The local was (conditionally) set to the constant 'INBOX' after a lower-case test in this function."""
    for s in body_walk(fi.node):
        if isinstance(s, ast.Assign) and any(isinstance(t, ast.Name) and t.id == name for t in s.targets):
            v = s.value
            if isinstance(v, ast.Constant) and v.value == "INBOX":
                return True
            if isinstance(v, ast.IfExp) and isinstance(v.body, ast.Constant) and v.body.value == "INBOX" and ".lower() == 'inbox'" in norm(v.test):
                return True
    return False


def r17_4(ctx):
    p = ctx.p
    fi = p.func("client.Authenticated.do_list")
    ctx.analysed(fi)
    # find the statement(s) adding \HasChildren and the variable deciding
    dec = None
    for s in body_walk(fi.node):
        if isinstance(s, ast.If) and any("add('\\\\HasChildren')" in norm(b) for b in s.body):
            dec = s
    if dec is None:
        # no recomputation at all: attributes come straight from the table
        ctx.ok("R17.4", where(fi), "LIST reports the stored \\HasChildren/\\HasNoChildren attributes (no recomputation from the result set)")
        return
    var = norm(dec.test)
    defs = [s for s in body_walk(fi.node) if isinstance(s, ast.Assign) and norm(s.targets[0]) == var]
    src_names = set()
    for d in defs:
        src_names |= names_in(d.value)
    # provenance of the name set used
    only_filtered = False
    for nm in src_names:
        ds = [s for s in body_walk(fi.node) if isinstance(s, ast.Assign) and norm(s.targets[0]) == nm]
        for d in ds:
            if "results" in names_in(d.value) and not any(k in norm(d.value, 400) for k in ("db.query", "db.fetchone", "list_folders", "SELECT")):
                only_filtered = True
    indep = any(k in " ".join(norm(d.value, 600) for d in defs) for k in ("list_folders", "db.", "SELECT"))
    for nm in src_names:
        for s in body_walk(fi.node):
            src = None
            if isinstance(s, ast.Assign) and any(isinstance(t, ast.Name) and t.id == nm for t in s.targets):
                src = norm(s.value, 800)
            elif isinstance(s, (ast.AsyncFor, ast.For)) and nm in {x.id for x in ast.walk(s.target) if isinstance(x, ast.Name)}:
                src = norm(s.iter, 800)
            if src and any(k in src for k in ("db.query", "db.fetchone", "list_folders", "SELECT name")):
                indep = True
            # the set is also filled from an unfiltered query:  async for (name,) in db.query("SELECT name FROM mailboxes ..."): nm.add(..)
            if isinstance(s, (ast.AsyncFor, ast.For)) and "db.query(" in norm(s.iter, 400) and " regexp " not in norm(s.iter, 400).lower():
                if any(isinstance(c, ast.Call) and call_name(c) in ("add", "update") and isinstance(call_recv(c), ast.Name) and call_recv(c).id == nm for b in s.body for c in ast.walk(b)):
                    indep = True
    if only_filtered and not indep:
        ctx.bad(
            "R17.4", fi.module, fi.qual, norm(defs[0], 100) if defs else var,
            "\\HasChildren/\\HasNoChildren is decided only from the names returned for this LIST's own pattern: `LIST \"\" \"%\"` "
            "with mailboxes a and a/b reports a as \\HasNoChildren because a/b does not match the pattern",
            dec.lineno,
        )
    else:
        ctx.ok("R17.4", where(fi), "\\HasChildren decision consults a pattern-independent source")


def run(ctx):
    r17_1(ctx)
    r17_2(ctx)
    r17_4(ctx)
    from . import c05
    c05.r5_5(ctx)
    ctx.note("R17.3 validate-before-mutate for create/delete/rename is decided by C05 R5.5")
