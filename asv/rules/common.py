"""Helpers shared by several property rule modules."""
from __future__ import annotations

import ast
from typing import Iterator

from ..astutil import (
    FUNC_TYPES,
    ancestors,
    attr_chain,
    body_walk,
    call_name,
    call_recv,
    calls_in,
    fstring_parts,
    merge_consts,
    norm,
    parents,
    strip_await,
    walk_no_nested,
)
from ..loader import AnalysisError, FuncInfo, Program
from ..types import Typer

_TYPER: dict[int, Typer] = {}
_PARENTS: dict[int, dict] = {}
_ENVS: dict[tuple[int, str], dict] = {}


def typer(p: Program) -> Typer:
    if id(p) not in _TYPER:
        _TYPER[id(p)] = Typer(p)
    return _TYPER[id(p)]


def env_of(p: Program, fi: FuncInfo) -> dict:
    k = (id(p), fi.key)
    if k not in _ENVS:
        _ENVS[k] = typer(p).local_env(fi)
    return _ENVS[k]


def parmap(fi: FuncInfo) -> dict:
    k = id(fi.node)
    if k not in _PARENTS:
        _PARENTS[k] = parents(fi.node)
    return _PARENTS[k]


_PMS: dict[tuple[int, str], object] = {}


def pm_of(p: Program, fi: FuncInfo):
    """Fresh-per-function structural pattern matcher (patterns are matched modulo renaming of locals)."""
    from ..pattern import PM

    return PM(p, fi)


def where(fi: FuncInfo) -> str:
    return f"{fi.module}:{fi.qual}"


# ----------------------------------------------------------------------------
# admission regions:  async with <cmd>.ready_and_okay(<mbox>):


def admission_items(fi: FuncInfo) -> Iterator[tuple[ast.AsyncWith, ast.Call]]:
    for n in body_walk(fi.node):
        if isinstance(n, (ast.AsyncWith, ast.With)):
            for it in n.items:
                c = strip_await(it.context_expr)
                if isinstance(c, ast.Call) and call_name(c) == "ready_and_okay":
                    yield n, c


def in_admission(node: ast.AST, fi: FuncInfo) -> list[ast.Call]:
    """ready_and_okay(...) calls whose with-body encloses `node`."""
    par = parmap(fi)
    out = []
    for a in ancestors(node, par):
        if isinstance(a, (ast.AsyncWith, ast.With)):
            for it in a.items:
                c = strip_await(it.context_expr)
                if isinstance(c, ast.Call) and call_name(c) == "ready_and_okay":
                    # only if node is in the body (not in the items themselves)
                    out.append(c)
    return out


def in_lock(node: ast.AST, fi: FuncInfo, lock_attr: str) -> list[ast.AST]:
    """Receivers R of enclosing `async with R.<lock_attr>` regions."""
    par = parmap(fi)
    out = []
    for a in ancestors(node, par):
        if isinstance(a, (ast.AsyncWith, ast.With)):
            for it in a.items:
                c = strip_await(it.context_expr)
                if isinstance(c, ast.Attribute) and c.attr == lock_attr:
                    out.append(c.value)
    return out


# ----------------------------------------------------------------------------
# push sinks


def is_push_call(c: ast.Call) -> bool:
    return call_name(c) == "push" and isinstance(c.func, ast.Attribute)


def push_calls(fi: FuncInfo) -> list[ast.Call]:
    return [c for c in calls_in(fi.node) if is_push_call(c) and _in_own_body(c, fi)]


def _in_own_body(n: ast.AST, fi: FuncInfo) -> bool:
    return True  # calls_in already skips nested defs


def local_defs(fi: FuncInfo, name: str) -> list[ast.AST]:
    """Value expressions assigned to local `name` anywhere in fi (flow-insensitive)."""
    out = []
    for n in body_walk(fi.node):
        if isinstance(n, ast.Assign):
            for t in n.targets:
                if isinstance(t, ast.Name) and t.id == name:
                    out.append(n.value)
        elif isinstance(n, ast.AnnAssign) and isinstance(n.target, ast.Name) and n.target.id == name and n.value:
            out.append(n.value)
        elif isinstance(n, ast.AugAssign) and isinstance(n.target, ast.Name) and n.target.id == name:
            out.append(n)
    return out


def first_hole_is_tag(expr: ast.AST) -> bool:
    """f"{<x>.tag} ..." (also after .strip()/.encode())."""
    e = strip_await(expr)
    while isinstance(e, ast.Call) and isinstance(e.func, ast.Attribute) and e.func.attr in ("strip", "encode", "rstrip"):
        e = e.func.value
    if isinstance(e, ast.IfExp):
        # `A if c else B`: a tagged line whichever arm is taken
        return first_hole_is_tag(e.body) and first_hole_is_tag(e.orelse)
    parts = fstring_parts(e)
    if not parts:
        return False
    parts = merge_consts(parts)
    first = parts[0]
    if isinstance(first, str):
        if first.strip() == "" and len(parts) > 1:
            first = parts[1]
        else:
            return False
    return isinstance(first, ast.Attribute) and first.attr == "tag"


def dispatch_targets(p: Program, cls: str, prefix: str = "do_") -> dict[str, FuncInfo]:
    """Methods reachable through getattr(self, f"{prefix}{x}") on `cls`."""
    out: dict[str, FuncInfo] = {}
    for ci in reversed(p.mro(cls)):
        for m, fi in ci.methods.items():
            if m.startswith(prefix):
                out[m] = fi
    return out
