"""C20 - a POP3 session is a stable snapshot and deletes only on QUIT.

 R20.1 snapshot fields are copies, written once, never mutated in place
 R20.2 no MH message key is cached across commands: messages are reached through their UID
 R20.3 deletion discipline: expunge only from QUIT, marks only via DELE / RSET
 R20.4 QUIT's expunge runs under the mailbox admission (shares C10 R10.1)
 R20.5 multi-line framing: dot-stuffed content, terminator shape, announced size taken before stuffing
 R20.6 sizes come from the shared renderer (shares C16 R16.1)
"""
from __future__ import annotations

import ast

from ..astutil import polarity_atoms, assigned_targets, body_walk, call_name, call_recv, calls_in, fstring_parts, kwarg, names_in, norm, strip_await, walk_no_nested
from ..shape import Shapes, YES
from .. import flow
from .common import in_admission, parmap, typer, where

PROP = "C20"
EXPLANATION = (
    "(R20.1) snapshot_msg_keys, snapshot_uids and msg_count are assigned only in __init__/init_session, from list(...) "
    "copies (len of the copy), and are never mutated in place - an alias of the live Mailbox list would follow IMAP "
    "expunges; (R20.2) a message-key value may not be kept in an object that outlives one admitted command, because "
    "MH.pack renumbers files and freed numbers are reused: POP3 must reach a message through its UID "
    "(get_msg_by_uid(snapshot_uids[n-1])), not through a cached key; (R20.3) in pop3_client.py expunge is called only from "
    "do_quit with uid_msg_set = [snapshot_uids[n-1] for n in self.deleted] and check_deleted=False, self.deleted is only "
    "add()-ed in do_dele after _valid_msg_num and clear()-ed in do_rset, and run()'s finally reaches no mailbox mutator; "
    "(R20.5) every multi-line reply ends with the '.CRLF' line, message content reaching such a reply passed through "
    "dot_stuff, content that already ends in CRLF is terminated with '.CRLF' (not CRLF '.CRLF'), and the size announced by "
    "RETR is len() of the bytes before stuffing; dot_stuff doubles a leading dot of every CRLF-separated line. "
    "Decides these clauses, not snapshot isolation under IMAP interleavings nor dot_stuff on all byte patterns."
)
RULE_TEXT = "instances: each store to a snapshot field; each use of a cached key; each expunge/deleted-set site; each multi-line reply"
ASSUMPTIONS = ["msg_as_bytes output always ends with CRLF (decided under C16 R16.3)", "not decided: isolation under concurrent IMAP activity"]
LEVEL_TEXT = (
    "Static write-once / aliasing check of the snapshot, unit-kind rule (no cached message key), who-may-call of the "
    "deletion path and shape rules of the multi-line replies."
)
LEVEL_NOTE = "Structural clauses only. Trusted: CPython ast."
TECHNIQUE = "who-may-write + alias check + unit kinds + string shape"
DESIGN_REF = "DESIGN.md section 3 / C20"

SNAP = ("snapshot_msg_keys", "snapshot_uids", "msg_count")


def r20_1(ctx):
    p = ctx.p
    n = 0
    for fi in p.funcs_in("pop3_client"):
        for s in body_walk(fi.node):
            if isinstance(s, (ast.Assign, ast.AnnAssign, ast.AugAssign, ast.Delete)):
                for t in assigned_targets(s):
                    base = t.value if isinstance(t, ast.Subscript) else t
                    if isinstance(base, ast.Attribute) and base.attr in SNAP:
                        n += 1
                        ctx.analysed(fi)
                        v = getattr(s, "value", None)
                        if isinstance(t, ast.Subscript) or isinstance(s, (ast.AugAssign, ast.Delete)):
                            ctx.bad("R20.1", fi.module, fi.qual, norm(s), "the session snapshot is modified in place", s.lineno)
                        elif fi.name == "__init__" and (isinstance(v, ast.List) and not v.elts or isinstance(v, ast.Constant) and v.value == 0):
                            ctx.ok("R20.1", where(fi), f"{norm(s, 60)}: empty default", nontrivial=False)
                        elif fi.name == "init_session":
                            if base.attr == "msg_count" and norm(v) == "len(self.snapshot_msg_keys)" or isinstance(v, ast.Call) and isinstance(v.func, ast.Name) and v.func.id in ("list", "tuple") and len(v.args) == 1:
                                ctx.ok("R20.1", where(fi), f"{norm(s, 70)}: private copy taken at session start")
                            else:
                                ctx.bad("R20.1", fi.module, fi.qual, norm(s), f"{base.attr} is bound to the mailbox's live list instead of a copy: later IMAP expunges/deliveries shift the POP3 numbering (UIDL values change, DELE marks resolve to other messages)", s.lineno)
                        else:
                            ctx.bad("R20.1", fi.module, fi.qual, norm(s), f"{base.attr} is written outside __init__/init_session: the snapshot is not stable for the session", s.lineno)
        for c in calls_in(fi.node):
            r = call_recv(c)
            if isinstance(r, ast.Attribute) and r.attr in SNAP and call_name(c) in ("append", "extend", "pop", "remove", "insert", "clear", "sort", "reverse"):
                ctx.bad("R20.1", fi.module, fi.qual, norm(c), "the session snapshot is mutated in place", c.lineno)
    ctx.floor("R20.1", n, 5, "stores to snapshot fields")


def r20_2(ctx):
    p = ctx.p
    n = 0
    for fi in p.funcs_in("pop3_client"):
        if fi.name in ("__init__", "init_session"):
            continue
        for x in body_walk(fi.node):
            if isinstance(x, ast.Attribute) and x.attr == "snapshot_msg_keys" and isinstance(x.ctx, ast.Load):
                n += 1
                ctx.analysed(fi)
                ctx.bad(
                    "R20.2", fi.module, fi.qual, f"{fi.name}: self.snapshot_msg_keys[...]",
                    "a message is fetched through an MH key cached at session start: after an IMAP-side EXPUNGE of the last "
                    "message plus a new delivery (number reused) or a folder pack, POP3 number n returns another message's "
                    "content/size; the message must be reached through its UID",
                    x.lineno,
                )
    uid_access = 0
    for fi in p.funcs_in("pop3_client"):
        for c in calls_in(fi.node):
            if call_name(c) == "get_msg_by_uid" and "snapshot_uids" in norm(c):
                uid_access += 1
                ctx.ok("R20.2", where(fi), f"{norm(c, 70)}: message reached through its UID")
    if n == 0:
        ctx.floor("R20.2", uid_access, 2, "UID-based message accesses in pop3_client")
    # no other attribute stores key-kinded values
    # (msg_sizes is keyed by POP3 number; deleted holds POP3 numbers)


def r20_3(ctx):
    p = ctx.p
    n = 0
    for fi in p.funcs_in("pop3_client"):
        for c in calls_in(fi.node):
            nm = call_name(c)
            r = call_recv(c)
            if nm in ("expunge", "store", "append", "copy", "aremove", "remove", "aclear") and r is not None and ("mbox" in norm(r) or "mailbox" in norm(r)):
                n += 1
                ctx.analysed(fi)
                if nm == "expunge" and fi.name == "do_quit":
                    arg = kwarg(c, "uid_msg_set")
                    cd = kwarg(c, "check_deleted")
                    d = [s for s in body_walk(fi.node) if isinstance(s, ast.Assign) and arg is not None and norm(s.targets[0]) == norm(arg)]
                    okv = bool(d) and isinstance(d[0].value, ast.ListComp) and norm(d[0].value.elt) == "self.snapshot_uids[n - 1]" and "self.deleted" in norm(d[0].value.generators[0].iter) and isinstance(cd, ast.Constant) and cd.value is False
                    if okv:
                        ctx.ok("R20.3", where(fi), "QUIT expunges exactly [snapshot_uids[n-1] for n in deleted], check_deleted=False")
                    else:
                        ctx.bad("R20.3", fi.module, fi.qual, norm(c, 100), "QUIT does not expunge exactly the UIDs of the DELE-marked snapshot numbers (with check_deleted=False)", c.lineno)
                else:
                    ctx.bad("R20.3", fi.module, fi.qual, norm(c, 80), f"POP3 code calls the mailbox mutator {nm}() outside do_quit: messages change although no QUIT happened", c.lineno)
    ctx.floor("R20.3", n, 1, "mailbox mutator calls in pop3_client")
    # self.deleted discipline
    for fi in p.funcs_in("pop3_client"):
        for c in calls_in(fi.node):
            r = call_recv(c)
            if isinstance(r, ast.Attribute) and r.attr == "deleted" and norm(r.value) == "self" and call_name(c) in ("add", "clear", "update", "discard", "remove", "pop"):
                nm = call_name(c)
                if nm == "add" and fi.name == "do_dele":
                    # after _valid_msg_num with the same variable
                    from .common import pm_of
                    pdd = pm_of(p, fi)
                    if pdd.has("n = self._valid_msg_num(args)") and pdd.has("if n is None:\n    ...\n    return True") and norm(c.args[0]) == pdd.name("n"):
                        ctx.ok("R20.3", where(fi), "DELE marks only a validated, not-yet-deleted message number")
                    else:
                        ctx.bad("R20.3", fi.module, fi.qual, norm(c), "DELE marks a number that was not validated", c.lineno)
                elif nm == "clear" and fi.name == "do_rset":
                    ctx.ok("R20.3", where(fi), "RSET clears every mark")
                else:
                    ctx.bad("R20.3", fi.module, fi.qual, norm(c), f"the deletion marks are changed by {fi.name}.{nm}() (only DELE may add, only RSET may clear)", c.lineno)
        for s in body_walk(fi.node):
            if isinstance(s, ast.Assign) and any(norm(t) == "self.deleted" for t in s.targets) and fi.name != "__init__":
                ctx.bad("R20.3", fi.module, fi.qual, norm(s), "the deletion marks are replaced outside the constructor", s.lineno)
    run = p.func("pop3_client.POP3ClientProxy.run")
    fin = [t for t in ast.walk(run.node) if isinstance(t, ast.Try) and t.finalbody]
    muts = [c for t in fin for s in t.finalbody for c in calls_in(s) if call_name(c) in ("expunge", "do_quit", "command")]
    if fin and not muts:
        ctx.ok("R20.3", where(run), "a dropped connection runs no expunge (finally only closes)")
    else:
        ctx.bad("R20.3", run.module, run.qual, "finally: ...", "the connection clean-up path reaches a mailbox mutator", run.node.lineno)
    # _valid_msg_num bounds
    from .common import pm_of
    vm = p.func("pop3_client.POP3CommandHandler._valid_msg_num")
    pvm = pm_of(p, vm)
    if pvm.has("n = int(num_str)") and pvm.has("if n < 1 or n > self.msg_count:\n    return None") and pvm.has("if n in self.deleted:\n    return None") and pvm.has("return n"):
        ctx.ok("R20.3", where(vm), "message numbers validated against 1..msg_count and the deletion marks")
    else:
        ctx.bad("R20.3", vm.module, vm.qual, "n < 1 or n > self.msg_count / n in self.deleted", "_valid_msg_num no longer bounds the number / excludes deleted messages", vm.node.lineno)


def r20_5(ctx):
    p = ctx.p
    sh = Shapes(p, typer(p))
    from .common import pm_of
    ds = p.func("pop3_client.dot_stuff")
    pds = pm_of(p, ds)
    if pds.has("lines = data.split(b'\\r\\n')\nresult = []\nfor line in lines:\n    if line.startswith(b'.'):\n        result.append(b'.' + line)\n    else:\n        result.append(line)\nreturn b'\\r\\n'.join(result)"):
        ctx.ok("R20.5", where(ds), "dot_stuff: every CRLF-separated line starting with '.' gets one more '.'")
    else:
        ctx.bad("R20.5", ds.module, ds.qual, "dot_stuff body", "dot_stuff no longer doubles the leading dot of each CRLF-separated line", ds.node.lineno)
    rt = p.func("pop3_client.POP3CommandHandler.do_retr")
    ctx.analysed(rt)
    t = norm(rt.node, 8000)
    # size before stuffing
    prt = pm_of(p, rt)
    lines = {}
    for nm_, pat in (("render", "msg_bytes = msg_as_bytes(msg)"), ("size", "size = len(msg_bytes)"), ("stuff", "msg_bytes = dot_stuff(msg_bytes)")):
        n_ = prt.find(pat)
        if n_ is not None:
            lines[nm_] = n_.lineno
    if set(lines) == {"render", "size", "stuff"} and lines["render"] < lines["size"] < lines["stuff"]:
        ctx.ok("R20.5", where(rt), "RETR: size = len(rendered bytes) taken before dot-stuffing")
    else:
        ctx.bad("R20.5", rt.module, rt.qual, "size = len(msg_bytes) before dot_stuff", "the octet count RETR announces is not taken from the rendered message before dot-stuffing: it differs from LIST/STAT and from what the client holds after un-stuffing", rt.node.lineno)
    # terminator shape
    push = [c for c in calls_in(rt.node) if call_name(c) == "push" and "octets" in norm(c)]
    ctx.require(push, "do_retr: reply push not found")
    if not prt.has("f'+OK {size} octets\\r\\n'.encode('latin-1') + msg_bytes + ..."):
        ctx.bad("R20.5", rt.module, rt.qual, "+OK {size} octets CRLF + stuffed bytes + terminator", "the RETR reply is no longer '+OK <size> octets' followed by the dot-stuffed message", push[0].lineno)
    a = push[0].args[0]
    tail = None
    if isinstance(a, ast.BinOp) and isinstance(a.right, ast.Constant):
        tail = a.right.value
    body_ends_crlf = True  # msg_as_bytes guarantee (C16 R16.3) preserved by dot_stuff (split/join on CRLF)
    if tail == b".\r\n":
        ctx.ok("R20.5", where(rt), "RETR: CRLF-terminated content followed by '.CRLF'")
    elif tail == b"\r\n.\r\n":
        ctx.bad("R20.5", rt.module, rt.qual, norm(a, 120), "RETR appends CRLF '.' CRLF to content that already ends in CRLF: two octets (an empty line) more than the announced size are delivered as part of the message", push[0].lineno)
    else:
        ctx.bad("R20.5", rt.module, rt.qual, norm(a, 120), "RETR reply does not end with the '.CRLF' terminator line", push[0].lineno)
    # other multi-line replies end with ".\r\n"
    for m in ("do_list", "do_uidl", "do_capa", "do_top"):
        fi = p.func(f"pop3_client.POP3CommandHandler.{m}")
        ctx.analysed(fi)
        tt = norm(fi.node, 8000)
        multi = [c for c in calls_in(fi.node) if call_name(c) == "push" and not any(isinstance(x, ast.Constant) and isinstance(x.value, str) and x.value.startswith("-ERR") for x in ast.walk(c)) and not (c.args and isinstance(c.args[0], ast.JoinedStr) and "+OK {n}" in norm(c.args[0]))]
        okm = ("'.\\r\\n'" in tt) or ("b'\\r\\n.\\r\\n'" in tt)
        if okm:
            ctx.ok("R20.5", where(fi), f"{m}: multi-line reply carries the '.CRLF' terminator")
        else:
            ctx.bad("R20.5", fi.module, fi.qual, m, f"{m}: multi-line reply lost its '.CRLF' terminator", fi.node.lineno)
    tp = p.func("pop3_client.POP3CommandHandler.do_top")
    ptp = pm_of(p, tp)
    if ptp.has("result = dot_stuff(result)") and ptp.has("await self.client.push(b'+OK\\r\\n' + result + b'\\r\\n.\\r\\n')"):
        ctx.ok("R20.5", where(tp), "TOP content is dot-stuffed")
    else:
        ctx.bad("R20.5", tp.module, tp.qual, "result = dot_stuff(result)", "TOP content is no longer dot-stuffed", tp.node.lineno)
    # STAT/LIST sizes through _get_msg_size -> get_msg_size
    gs = p.func("pop3_client.POP3CommandHandler._get_msg_size")
    pgs = pm_of(p, gs)
    # what is cached under the message number is get_msg_size(<the message of that number>) - or 0 when it has vanished
    def _size_src(e):
        if isinstance(e, ast.Call) and call_name(e) == "get_msg_size":
            a0 = e.args[0] if e.args else None
            if isinstance(a0, ast.Name):
                ds = [s_.value for s_ in body_walk(gs.node) if isinstance(s_, ast.Assign) and norm(s_.targets[0]) == a0.id]
                a0 = ds[0] if len(ds) == 1 else None
            return "size" if isinstance(a0, ast.Call) and call_name(a0) == "get_msg_by_uid" and "self.snapshot_uids[pop3_num - 1]" in norm(a0) else None
        if isinstance(e, ast.Constant) and e.value == 0:
            return "zero"
        if isinstance(e, ast.Name):
            ds = [_size_src(s_.value) for s_ in body_walk(gs.node) if isinstance(s_, ast.Assign) and norm(s_.targets[0]) == e.id]
            return "size" if ds and all(ds) and "size" in ds else None
        return None

    stores = [s_ for s_ in body_walk(gs.node) if isinstance(s_, ast.Assign) and norm(s_.targets[0]) == "self.msg_sizes[pop3_num]"]
    srcs = [_size_src(s_.value) for s_ in stores]
    if stores and all(srcs) and "size" in srcs and pgs.has("return self.msg_sizes[pop3_num]"):
        ctx.ok("R20.5", where(gs), "STAT/LIST sizes = get_msg_size(msg) (same renderer as RETR)")
    else:
        ctx.bad("R20.5", gs.module, gs.qual, "get_msg_size(msg)", "STAT/LIST sizes no longer come from the shared renderer", gs.node.lineno)
    # UIDL values = snapshot_uids
    ul = p.func("pop3_client.POP3CommandHandler.do_uidl")
    pul = pm_of(p, ul)
    if pul.has("for num in range(1, self.msg_count + 1):\n    if num not in self.deleted:\n        uid = self.snapshot_uids[num - 1]\n        lines.append(f'{num} {uid}\\r\\n')") and pul.has("uid = self.snapshot_uids[n - 1]") and pul.has("await self.client.push(f'+OK {n} {uid}\\r\\n')"):
        ctx.ok("R20.5", where(ul), "UIDL values are the snapshot's IMAP UIDs")
    else:
        ctx.bad("R20.5", ul.module, ul.qual, "uid = self.snapshot_uids[n - 1]", "UIDL no longer reports the snapshot's IMAP UIDs", ul.node.lineno)


def r20_4(ctx):
    p = ctx.p
    fi = p.func("pop3_client.POP3CommandHandler.do_quit")
    ex = [c for c in calls_in(fi.node) if call_name(c) == "expunge"]
    ctx.require(ex, "do_quit: expunge call not found")
    if in_admission(ex[0], fi):
        ctx.ok("R20.4", where(fi), "QUIT's expunge runs under the mailbox admission")
    else:
        ctx.bad("R20.4", fi.module, fi.qual, "self.mbox.expunge(...) outside ready_and_okay", "POP3 QUIT expunges outside the mailbox's admission queue: it can delete messages under a running FETCH/STORE of an IMAP session (sequence numbers shift under the loop, EXPUNGE is pushed during a FETCH)", ex[0].lineno)


def r20_7(ctx):
    """Message numbers of the listings.  LIST and UIDL print, for each message of the snapshot that is not marked, its
    *snapshot number* next to the size / UID looked up under that same number.  (The running count of unmarked messages is a
    different quantity as soon as a lower-numbered message carries a DELE mark.)"""
    p = ctx.p
    n = 0
    for key, look in (("pop3_client.POP3CommandHandler.do_list", "_get_msg_size"), ("pop3_client.POP3CommandHandler.do_uidl", None)):
        fi = p.func(key)
        ctx.analysed(fi)
        for lp in [x for x in body_walk(fi.node) if isinstance(x, ast.For) and isinstance(x.target, ast.Name) and isinstance(x.iter, ast.Call) and call_name(x.iter) == "range"]:
            num = lp.target.id
            rng = norm(lp.iter)
            if rng != "range(1, self.msg_count + 1)":
                ctx.bad("R20.7", fi.module, fi.qual, rng, f"the listing no longer runs over the snapshot numbers 1..msg_count (`{rng}`)", lp.lineno)
                continue
            skip = [i for i in walk_no_nested(lp) if isinstance(i, ast.If) and isinstance(i.test, ast.Compare) and norm(i.test.left) == num and "self.deleted" in norm(i.test.comparators[0])]
            okskip = bool(skip) and isinstance(skip[0].test.ops[0], ast.NotIn) and any(call_name(c) == "append" for st in skip[0].body for c in calls_in(st))
            okskip = okskip or (bool(skip) and isinstance(skip[0].test.ops[0], ast.In) and any(isinstance(b, ast.Continue) for b in skip[0].body))
            apps = [c for c in calls_in(lp) if call_name(c) == "append" and c.args and isinstance(c.args[0], ast.JoinedStr)]
            for a in apps:
                n += 1
                parts = fstring_parts(a.args[0])
                holes = [x for x in parts if not isinstance(x, str)]
                first = holes[0] if holes else None
                if isinstance(first, ast.Name) and first.id == num and okskip:
                    # the second hole is looked up under the same number
                    second = holes[1] if len(holes) > 1 else None
                    src_ok = True
                    if isinstance(second, ast.Name):
                        defs = [s_.value for s_ in walk_no_nested(lp) if isinstance(s_, ast.Assign) and norm(s_.targets[0]) == second.id]
                        src_ok = all(num in names_in(d) for d in defs) if defs else False
                    if src_ok:
                        ctx.ok("R20.7", where(fi), f"`{norm(a.args[0], 40)}`: snapshot number and the value looked up under it; marked messages skipped")
                    else:
                        ctx.bad("R20.7", fi.module, fi.qual, norm(a, 80), f"the value printed next to message number `{num}` is not looked up under that number", a.lineno)
                else:
                    ctx.bad(
                        "R20.7", fi.module, fi.qual, norm(a, 80),
                        f"the listing prints `{norm(first) if first is not None else '?'}` as the message number instead of the snapshot number `{num}` (or does not skip exactly the marked "
                        "messages): after a DELE of a lower-numbered message the numbers LIST/UIDL show no longer agree with RETR/DELE/`LIST n`",
                        a.lineno,
                    )
    ctx.floor("R20.7", n, 2, "multi-line listing lines (LIST, UIDL)")


def r20_8(ctx):
    """POP3 reads its messages by UID straight from the Mailbox object, not through the mailbox's command queue.  Mailbox
    methods it calls that way must cope with the one window in which the reverse index (uid -> position) disagrees with the
    lists: Mailbox.expunge() awaits between removing a message from uids/msg_keys and rebuilding the index.  Either that window
    does not exist, or every such reader validates the index hit (`self.uids[idx] != uid` -> look the UID up where it is)."""
    p = ctx.p
    ex = p.func("mbox.Mailbox.expunge")
    g = ctx.cfg(ex)
    muts = [n.id for n in g.nodes if n.kind == "stmt" and isinstance(n.ast, ast.Delete) and any(norm(t.value) in ("self.uids", "self.msg_keys") for t in n.ast.targets if isinstance(t, ast.Subscript))]
    rebuild = {n.id for n in g.nodes if n.ast is not None and n.kind == "stmt" and any(call_name(c) == "_rebuild_index_dicts" for c in calls_in(n.ast))}
    awaits = {n.id for n in g.nodes if n.ast is not None and n.kind in ("stmt", "with_enter") and any(isinstance(x, ast.Await) for x in walk_no_nested(n.ast))}
    window = False
    for m_ in muts:
        seen = flow.reach(g, [e.dst for e in g.out[m_] if e.label in flow.NORMAL], flow.NORMAL, avoid=lambda n: n in rebuild)
        ctx.paths_explored += len(seen)
        if any(a in seen for a in awaits):
            window = True
    # Mailbox methods the POP3 handler calls outside an admission region
    unq = set()
    for fi in p.funcs_in("pop3_client"):
        for c in calls_in(fi.node):
            r = call_recv(c)
            if r is not None and norm(r) in ("self.mbox", "mbox") and not in_admission(c, fi):
                unq.add(call_name(c))
    readers = []
    for nm in sorted(unq):
        m = p.resolve_method("Mailbox", nm)
        if m is not None and any(isinstance(x, ast.Subscript) and norm(x.value) in ("self._uid_to_idx", "self._msg_key_to_idx") for x in body_walk(m.node)):
            readers.append(m)
    ctx.floor("R20.8", len(unq), 1, "Mailbox methods called by the POP3 handler outside the command queue")
    if not window:
        ctx.ok("R20.8", where(ex), "expunge() rebuilds the reverse index before it awaits anything: no stale window")
        return
    for m in readers:
        ctx.analysed(m)
        # every path from the index look-up to a use of the position passes either the validation
        # (`idx < len(self.uids)` and `self.uids[idx] == uid` both true) or a fresh look-up (`self.uids.index(uid)`)
        gm = ctx.cfg(m)
        look = [n.id for n in gm.nodes if n.ast is not None and n.kind == "stmt" and isinstance(n.ast, ast.Assign) and isinstance(n.ast.targets[0], ast.Name) and any(isinstance(x, (ast.Subscript, ast.Call)) and "self._uid_to_idx" in norm(x) for x in ast.walk(n.ast.value))]
        okv = bool(look)
        for l_ in look:
            iv = gm.nodes[l_].ast.targets[0].id
            uses = {n.id for n in gm.nodes if n.ast is not None and n.kind in ("stmt", "return") and any(isinstance(x, ast.Subscript) and norm(x.value) in ("self.msg_keys", "self.uids") and norm(x.slice) == iv for x in ast.walk(n.ast))}
            fresh = {n.id for n in gm.nodes if n.ast is not None and n.kind == "stmt" and isinstance(n.ast, ast.Assign) and norm(n.ast.targets[0]) == iv and any(call_name(c) == "index" and norm(call_recv(c)) == "self.uids" for c in calls_in(n.ast))}

            def _cls(e, iv=iv):
                if isinstance(e, ast.Compare) and len(e.ops) == 1:
                    t = norm(e)
                    if isinstance(e.ops[0], ast.Eq) and f"self.uids[{iv}]" in (norm(e.left), norm(e.comparators[0])):
                        return "hit"
                    if isinstance(e.ops[0], ast.Lt) and norm(e.left) == iv and norm(e.comparators[0]) == "len(self.uids)":
                        return "inrange"
                    if isinstance(e.ops[0], ast.Gt) and norm(e.comparators[0]) == iv and norm(e.left) == "len(self.uids)":
                        return "inrange"
                return None

            bad_path = flow.feasible_paths_exist(gm, l_, uses, _cls, labels=flow.NORMAL, avoid=lambda x: x in fresh, accept=lambda n_, f: not (f.get("hit") is True and f.get("inrange") is True)) if uses else None
            ctx.paths_explored += 1
            if bad_path or not uses:
                okv = False
        if okv:
            ctx.ok("R20.8", where(m), "index hit validated against uids before it is used (expunge has a stale-index window)")
        else:
            ctx.bad(
                "R20.8", m.module, m.qual, "reverse-index hit used without validation",
                f"{m.name}() is called by the POP3 handler outside the command queue and trusts `_uid_to_idx` although expunge() awaits between "
                "shortening uids/msg_keys and rebuilding that index: during an IMAP EXPUNGE / MOVE / another POP3 QUIT, RETR/TOP/LIST get the "
                "message that slid into the stale position (or IndexError ends the session)",
                m.node.lineno,
            )
    if not readers:
        ctx.ok("R20.8", where(ex), "no unqueued reader consults the reverse index", nontrivial=False)


PER_SESSION_CLASSES = ("POP3CommandHandler", "POP3ClientProxy", "Authenticated", "BaseClientHandler", "PreAuthenticated", "IMAPClientCommand", "FetchAtt", "SearchContext", "IMAPSearch")


def r20_9(ctx):
    """What a POP3 session knows (its snapshot, its DELE marks, the sizes it has announced, keyed by *its* message numbers)
    belongs to that session.  A mutable container bound in the class body is one object shared by every instance: sizes
    cached under one session's numbering are served to the next session, whose numbers mean other messages.  So every
    container attribute that the methods of a per-session / per-command class fill in place is bound on the instance in
    `__init__` (or a start-of-session method), never only in the class body."""
    p = ctx.p
    n = 0
    for cname in PER_SESSION_CLASSES:
        if cname not in p.classes:
            continue
        ci = p.cls(cname)
        shared = {}
        for st in ci.node.body:
            tgt, val = None, None
            if isinstance(st, ast.AnnAssign) and isinstance(st.target, ast.Name) and st.value is not None:
                tgt, val = st.target.id, st.value
            elif isinstance(st, ast.Assign) and len(st.targets) == 1 and isinstance(st.targets[0], ast.Name):
                tgt, val = st.targets[0].id, st.value
            if tgt and (isinstance(val, (ast.Dict, ast.List, ast.Set, ast.ListComp, ast.DictComp, ast.SetComp)) or (isinstance(val, ast.Call) and isinstance(val.func, ast.Name) and val.func.id in ("dict", "list", "set", "defaultdict", "deque", "OrderedDict", "Counter"))):
                shared[tgt] = st
        inst = set()
        mutated = {}
        for m in ci.methods.values():
            for x in ast.walk(m.node):
                if isinstance(x, (ast.Assign, ast.AnnAssign)):
                    for t in (x.targets if isinstance(x, ast.Assign) else [x.target]):
                        if isinstance(t, ast.Attribute) and isinstance(t.value, ast.Name) and t.value.id == "self":
                            inst.add(t.attr)
                if isinstance(x, ast.Subscript) and isinstance(x.ctx, (ast.Store, ast.Del)) and isinstance(x.value, ast.Attribute) and isinstance(x.value.value, ast.Name) and x.value.value.id == "self":
                    mutated.setdefault(x.value.attr, x)
                if isinstance(x, ast.Call) and isinstance(x.func, ast.Attribute) and x.func.attr in ("add", "append", "extend", "update", "setdefault", "pop", "clear", "discard", "remove", "insert") and isinstance(x.func.value, ast.Attribute) and isinstance(x.func.value.value, ast.Name) and x.func.value.value.id == "self":
                    mutated.setdefault(x.func.value.attr, x)
        n += 1
        bad = [a for a in shared if a in mutated and a not in inst]
        for a in bad:
            ctx.bad("R20.9", ci.module, cname, f"{a} = {norm(shared[a].value, 30)} in the class body", f"`{cname}.{a}` is a mutable container bound in the class body and filled in place by the methods (`{norm(mutated[a], 60)}`), never bound on the instance: all sessions share one object - what one session cached under its own message numbers is served to the next, whose numbers denote other messages", shared[a].lineno)
        if not bad:
            ctx.ok("R20.9", f"{ci.module}:{cname}", f"{cname}: every container its methods fill in place is bound per instance ({len(mutated)} such attribute(s))", nontrivial=bool(mutated))
    ctx.floor("R20.9", n, 5, "per-session / per-command classes")


def run(ctx):
    ctx.do(r20_1)
    ctx.do(r20_2)
    ctx.do(r20_3)
    ctx.do(r20_4)
    ctx.do(r20_5)
    ctx.do(r20_7)
    ctx.do(r20_8)
    from . import c10, c16
    ctx.do(c10.r10_4_units, modules=("pop3_client", "mbox"))
    ctx.do(c16.r16_1)
    from . import c03, c05
    ctx.do(c05.r5_3)
    ctx.do(r20_9)
    ctx.do(c03.r3_6)  # POP3 reads run beside a suspended expunge: the lists they index must never be half-updated
    ctx.do(c03.r3_7)  # QUIT's removals go through the reverse indexes
    ctx.note("R20.6 (sizes from the shared renderer) is decided by C16 R16.1")
