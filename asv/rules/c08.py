"""C08 - command parsing is total and faithful.

 R8.1 exception-escape analysis of parse(): only BadCommand-family exceptions can leave it
 R8.2 end-of-input obligation after the command was parsed
 R8.3 only a whole token equal (case-insensitively) to INBOX becomes the inbox
 R8.4 command / handler / table exhaustiveness
 R8.5 quoted-string escapes are decoded
 R8.6 1:1 byte decoding at both entry points; front end re-inserts exactly CRLF after a literal header
"""
from __future__ import annotations

import ast

from .. import regexlang as rl
from ..astutil import polarity_atoms, body_walk, call_name, call_recv, calls_in, kwarg, names_in, norm, strip_await, walk_no_nested
from ..loader import AnalysisError
from .common import parmap, where

PROP = "C08"
EXPLANATION = (
    "(R8.1) the call graph of IMAPClientCommand.parse (self-calls, callbacks handed to the list helpers, the dynamic "
    "_p_srchkey_* dispatch, FetchAtt/IMAPSearch constructors, utils.parsedate) is walked; every explicit raise must be a "
    "BadCommand subclass, every assert must be discharged (operand is the non-empty match of a regex of minimum width "
    ">= 1), and every partial library operation from a frozen table - int(), date(), datetime(), parsedate(), "
    "parsedate_to_datetime(), enum constructors, subscripting a module-level dict - must be discharged by a regex-language "
    "fact (digits-only group, literal alternation equal to the dict's keys, numeric range) or be enclosed in a try that "
    "converts the error to BadCommand; both callers of parse() catch exactly BadCommand and answer BAD. (R8.2) every "
    "normal return of _parse is preceded by a test that the remaining input is empty (or only CRLF) whose failing arm "
    "raises BadCommand. (R8.3) in _p_mailbox the value 'inbox' is produced only from a whole-token case-insensitive "
    "comparison. (R8.4) IMAPCommand members = arms of _parse_command = do_* handlers; uid_commands are commands whose arm "
    "parses a set; ParseFetchAtt tokens are all handled; CAPABILITIES that introduce commands have them. (R8.5) the "
    "quoted-string arm of _p_string unescapes \\\\ and \\\". (R8.6) both entry points decode with latin-1 and the front "
    "end re-inserts exactly CRLF after a literal header. Decides these clauses, not equality of the accepted language "
    "with the RFC 3501 grammar."
    " R8.1 also bounds int(): a digits-only pattern of unbounded width needs a ValueError handler up to parse() (CPython refuses more than 4300 digits), and recursion cycles of the parser's call graph need a RecursionError handler at parse(); R8.3 requires the INBOX comparison to be repeated after the last normalisation of the name; flag case folding is shared with C04 R4.7."
)
RULE_TEXT = (
    "instances: every raise/assert/partial-operation site in the parse call graph; every return of _parse; every "
    "producer of 'inbox'; every enum member / match arm / handler; non-trivial = needed a regex-language fact, a "
    "call-graph walk or a CFG query"
)
ASSUMPTIONS = [
    "frozen table of partial library operations: int, float, date, datetime, parsedate, parsedate_to_datetime, Enum(value), dict[key]",
    "email.message_from_string is total on str input",
    "not decided: that accepted sentences and produced attributes equal an RFC 3501 reading",
]
LEVEL_TEXT = (
    "Static exception-escape analysis over the parser's call graph with regex-language discharge, plus table/"
    "exhaustiveness agreement and shape rules for end-of-input, INBOX token, unescape and byte decoding. Totality "
    "('only BadCommand can escape') is decided for every input because no input value is consulted; language equality "
    "with RFC 3501 is not decided."
)
LEVEL_NOTE = "Structural clauses only. Trusted: CPython ast, re._parser; frozen table of partial operations."
TECHNIQUE = "exception-escape analysis over the call graph + regex-language facts + table agreement"
DESIGN_REF = "DESIGN.md section 3 / C08"

INFEASIBLE_RAISE = {
    ("parse.IMAPClientCommand.is_seq_num", "SyntaxError"): "guarded by `num < 0` after val.isdigit(): int of a digit string is never negative",
}


def _bad_family(p):
    return {c for c in p.classes if any(ci.name == "BadCommand" for ci in p.mro(c))}


def parse_graph(p):
    """Functions reachable from IMAPClientCommand.parse."""
    root = p.func("parse.IMAPClientCommand.parse")
    cls = p.cls("IMAPClientCommand")
    seen = {}
    todo = [root]
    edges = PARSE_EDGES
    edges.clear()
    while todo:
        fi = todo.pop()
        if fi.key in seen:
            continue
        seen[fi.key] = fi
        before = len(todo)
        _cur = fi
        for n in body_walk(fi.node):
            # self.<method>(..) and bound-method references self._p_x passed as callbacks
            if isinstance(n, ast.Attribute) and isinstance(n.value, ast.Name) and n.value.id == "self" and n.attr in cls.methods:
                todo.append(cls.methods[n.attr])
            if isinstance(n, ast.Call):
                f = n.func
                if isinstance(f, ast.Name):
                    if f.id == "getattr" and len(n.args) >= 2 and isinstance(n.args[1], ast.JoinedStr):
                        pre = "".join(v.value for v in n.args[1].values if isinstance(v, ast.Constant))
                        for m, mfi in cls.methods.items():
                            if m.startswith(pre):
                                todo.append(mfi)
                    elif f.id in p.classes:
                        init = p.resolve_method(f.id, "__init__")
                        if init:
                            todo.append(init)
                    else:
                        for g in p.functions.values():
                            if g.cls is None and g.parent is None and g.name == f.id and g.module in ("parse", "utils", "fetch", "search"):
                                todo.append(g)
        edges[fi.key] = {t.key for t in todo[before:]}
    return seen


PARSE_EDGES: dict[str, set[str]] = {}


def _cycles(edges):
    """Strongly connected components with a cycle (Tarjan, iterative enough for ~100 nodes via recursion)."""
    import sys

    sys.setrecursionlimit(max(sys.getrecursionlimit(), 5000))
    index, low, onst, st, out = {}, {}, set(), [], []

    def go(v):
        index[v] = low[v] = len(index)
        st.append(v)
        onst.add(v)
        for w in sorted(edges.get(v, ())):
            if w not in index:
                go(w)
                low[v] = min(low[v], low[w])
            elif w in onst:
                low[v] = min(low[v], index[w])
        if low[v] == index[v]:
            comp = []
            while True:
                w = st.pop()
                onst.discard(w)
                comp.append(w)
                if w == v:
                    break
            if len(comp) > 1 or v in edges.get(v, ()):
                out.append(sorted(comp))

    for v in sorted(edges):
        if v not in index:
            go(v)
    return out


def _root_catches(p, fam) -> set[str]:
    """Exception names that parse() itself converts into a BadCommand: handlers of a try whose body calls self._parse()
    and whose handler body raises a member of the BadCommand family."""
    root = p.func("parse.IMAPClientCommand.parse")
    out = set()
    for n in body_walk(root.node):
        if isinstance(n, ast.Try) and any(isinstance(c, ast.Call) and call_name(c) == "_parse" for s_ in n.body for c in ast.walk(s_)):
            for h in n.handlers:
                raises = [x for s_ in h.body for x in walk_no_nested(s_) if isinstance(x, ast.Raise) and x.exc is not None]
                if not raises or not isinstance(h.body[-1], ast.Raise):
                    continue
                nm = (norm(raises[-1].exc.func) if isinstance(raises[-1].exc, ast.Call) else norm(raises[-1].exc)).split(".")[-1]
                if nm not in fam:
                    continue
                if h.type is None:
                    out.add("BaseException")
                else:
                    for t in (h.type.elts if isinstance(h.type, ast.Tuple) else [h.type]):
                        out.add(norm(t).split(".")[-1])
    return out


INT_MAX_STR_DIGITS = 4300  # sys.int_info.default_max_str_digits: int(str) raises ValueError beyond it


def _regex_const(p, name):
    """name like _number_re -> pattern string (follows `x_re = re.compile(x, ...)` and string concatenation)."""
    try:
        node = p.module_constant("parse", name)
    except AnalysisError:
        return None
    if isinstance(node, ast.Call) and call_name(node) == "compile" and node.args:
        return _str_const(p, node.args[0])
    return _str_const(p, node)


def _str_const(p, node):
    if isinstance(node, ast.Constant) and isinstance(node.value, str):
        return node.value
    if isinstance(node, ast.Name):
        try:
            return _str_const(p, p.module_constant("parse", node.id))
        except AnalysisError:
            return None
    if isinstance(node, ast.BinOp) and isinstance(node.op, ast.Add):
        a, b = _str_const(p, node.left), _str_const(p, node.right)
        return a + b if a is not None and b is not None else None
    return None


def _local_def(fi, name, before=None):
    out = None
    for n in body_walk(fi.node):
        if isinstance(n, ast.Assign) and any(isinstance(t, ast.Name) and t.id == name for t in n.targets):
            if before is None or n.lineno <= before:
                out = n.value
    return out


def _in_try_catching(node, fi, names):
    par = parmap(fi)
    cur = node
    while cur in par:
        pr = par[cur]
        if isinstance(pr, ast.Try) and cur in pr.body:
            for h in pr.handlers:
                hn = {norm(t).split(".")[-1] for t in (h.type.elts if isinstance(h.type, ast.Tuple) else [h.type])} if h.type else {"BaseException"}
                if hn & (names | {"Exception", "BaseException"}):
                    return h
        cur = pr
    return None


_INT_WIDTH: dict[int, int | None] = {}


def _discharge_int(p, fi, call):
    """int(x): x provably a non-empty digit string?  Side result: _INT_WIDTH[id(call)] = upper bound of the number of
    digits (None = unbounded/unknown)."""
    _INT_WIDTH[id(call)] = None
    if not call.args:
        return None
    a = call.args[0]
    src = a
    line = call.lineno
    if isinstance(a, ast.Name):
        # guard  x.isdigit()
        par = parmap(fi)
        cur = call
        while cur in par:
            pr = par[cur]
            if isinstance(pr, ast.If) and cur in pr.body and norm(pr.test) == f"{a.id}.isdigit()":
                return f"guarded by {a.id}.isdigit()"
            cur = pr
        d = _local_def(fi, a.id, line)
        if d is not None:
            src = d
    src = strip_await(src)
    if isinstance(src, ast.Call) and call_name(src) == "_p_re" and src.args and isinstance(src.args[0], ast.Name):
        silent = kwarg(src, "silent")
        if silent is not None and not (isinstance(silent, ast.Constant) and silent.value is False):
            return None
        pat = _regex_const(p, src.args[0].id)
        grp = kwarg(src, "group")
        if pat is None:
            return None
        if grp is not None and isinstance(grp, ast.Constant):
            _INT_WIDTH[id(call)] = rl.group_max_width(pat, grp.value)
            return f"group {grp.value} of {src.args[0].id} is digits-only" if rl.group_digits_only(pat, grp.value) else None
        _INT_WIDTH[id(call)] = rl.max_width(pat)
        return f"{src.args[0].id} = /{pat}/ is digits-only" if rl.digits_only(pat) else None
    if isinstance(src, ast.Call) and call_name(src) == "group" and src.args and isinstance(src.args[0], ast.Constant):
        # match.group("year") where match = <re>.match(...) in this function
        m = call_recv(src)
        if isinstance(m, ast.Name):
            d = _local_def(fi, m.id, line)
            if isinstance(d, ast.Call) and call_name(d) in ("match", "search", "fullmatch") and isinstance(call_recv(d), ast.Name):
                pat = _regex_const(p, call_recv(d).id)
                if pat and rl.group_digits_only(pat, src.args[0].value):
                    _INT_WIDTH[id(call)] = rl.group_max_width(pat, src.args[0].value)
                    return f"group {src.args[0].value!r} of {call_recv(d).id} is digits-only"
    return None


def r8_1(ctx):
    p = ctx.p
    fam = _bad_family(p)
    ctx.require("BadCommand" in fam, "BadCommand family not found", anchor=True)
    graph = parse_graph(p)
    ctx.floor("R8.1", len(graph), 70, "functions reachable from parse()")
    root_catches = _root_catches(p, fam)
    root = p.func("parse.IMAPClientCommand.parse")
    # recursion driven by the input (nested search keys, parenthesised lists): RecursionError must become a BadCommand
    cyc = [c for c in _cycles({k: v & set(graph) for k, v in PARSE_EDGES.items()}) if all(k.startswith("parse.") for k in c)]
    ctx.floor("R8.1", len(cyc), 1, "recursive cycles in the parser's call graph")
    for comp in cyc:
        names = ", ".join(k.split(".")[-1] for k in comp[:6]) + (" ..." if len(comp) > 6 else "")
        if root_catches & {"RecursionError", "RuntimeError", "Exception", "BaseException"}:
            ctx.ok("R8.1", where(root), f"recursive descent ({names}): RecursionError is turned into a BadCommand by parse()")
        else:
            ctx.bad(
                "R8.1", root.module, root.qual, f"recursive descent through {comp[0].split('.')[-1]}",
                f"the parser recurses as deep as the input nests ({names}): `SEARCH NOT NOT NOT ...` a few thousand deep raises "
                "RecursionError, which is not a BadCommand - the callers of parse() drop the connection without a reply",
                root.node.lineno,
            )
    n_sites = 0
    for key, fi in sorted(graph.items()):
        ctx.analysed(fi)
        for n in body_walk(fi.node):
            # ---- explicit raises
            if isinstance(n, ast.Raise) and n.exc is not None:
                e = n.exc
                nm = (norm(e.func) if isinstance(e, ast.Call) else norm(e)).split(".")[-1]
                n_sites += 1
                if nm in fam:
                    ctx.ok("R8.1", where(fi), f"raise {nm} (BadCommand family)", nontrivial=False)
                elif nm == "BadSearchOp" and _search_ops_constant(p):
                    ctx.ok("R8.1", where(fi), "raise BadSearchOp: infeasible - every IMAPSearch(...) site in parse.py passes a constant op that is a SearchOp value")
                elif (key, nm) in INFEASIBLE_RAISE:
                    ctx.ok("R8.1", where(fi), f"raise {nm}: infeasible - {INFEASIBLE_RAISE[(key, nm)]}", nontrivial=False)
                elif _in_try_catching(n, fi, {nm}):
                    ctx.ok("R8.1", where(fi), f"raise {nm} caught locally", nontrivial=False)
                elif nm in ("Bad", "BadSection") or nm in p.classes and any(ci.name == "ProtocolException" for ci in p.mro(nm)):
                    ctx.bad("R8.1", fi.module, fi.qual, norm(n, 100), f"{nm} (not a BadCommand) can escape parse(): the callers catch only BadCommand", n.lineno)
                else:
                    ctx.bad("R8.1", fi.module, fi.qual, norm(n, 100), f"{nm} can escape parse(): the proxy's `except Exception` then drops the connection without a reply", n.lineno)
            # ---- asserts
            elif isinstance(n, ast.Assert):
                n_sites += 1
                t = n.test
                why = None
                if isinstance(t, ast.Name):
                    d = _local_def(fi, t.id, n.lineno)
                    d = strip_await(d) if d is not None else None
                    if isinstance(d, ast.Call) and call_name(d) == "_p_re" and isinstance(d.args[0], ast.Name):
                        silent = kwarg(d, "silent")
                        pat = _regex_const(p, d.args[0].id)
                        if (silent is None or (isinstance(silent, ast.Constant) and silent.value is False)) and pat and rl.min_width(pat) >= 1:
                            why = f"non-silent _p_re({d.args[0].id}) returns a non-empty match (min width {rl.min_width(pat)})"
                    elif isinstance(d, ast.Call) and call_name(d) in ("match",) and isinstance(call_recv(d), ast.Name) and d.args and isinstance(d.args[0], ast.Name):
                        # re-matching a regex against its own earlier match
                        src = _local_def(fi, d.args[0].id, n.lineno)
                        src = strip_await(src) if src is not None else None
                        if isinstance(src, ast.Call) and call_name(src) == "_p_re" and norm(src.args[0]) == norm(call_recv(d)):
                            why = f"{norm(call_recv(d))} re-matched against its own match"
                elif isinstance(t, ast.Call) and isinstance(t.func, ast.Name) and t.func.id == "isinstance":
                    why = "type-narrowing assert on a value that was just replaced by an int (mypy aid)"
                    # start/end: after `if x == "*": x = seq_max` the value is the parsed int
                if why:
                    ctx.ok("R8.1", where(fi), f"{norm(n, 50)}: {why}")
                else:
                    ctx.bad("R8.1", fi.module, fi.qual, norm(n, 100), "AssertionError can escape parse()", n.lineno)
            # ---- partial library operations
            elif isinstance(n, ast.Call):
                f = n.func
                nm = f.id if isinstance(f, ast.Name) else (f.attr if isinstance(f, ast.Attribute) else None)
                if nm == "int" and isinstance(f, ast.Name):
                    n_sites += 1
                    why = _discharge_int(p, fi, n)
                    width = _INT_WIDTH.get(id(n))
                    if why and fi.module == "parse" and (width is None or width > INT_MAX_STR_DIGITS) and not _in_try_catching(n, fi, {"ValueError"}):
                        # digits only, but as many as the client likes: int() raises ValueError beyond 4300 digits
                        if "ValueError" in root_catches or root_catches & {"Exception", "BaseException"}:
                            ctx.ok("R8.1", where(fi), f"{norm(n, 50)}: {why}; no bound on the number of digits, the ValueError of an over-long number is turned into a BadCommand by parse()")
                        else:
                            ctx.bad(
                                "R8.1", fi.module, fi.qual, norm(n, 100),
                                f"int() on a digit string of unbounded length ({why}): beyond {INT_MAX_STR_DIGITS} digits int() raises "
                                "ValueError, which no handler up to parse() turns into a BadCommand - the connection is dropped without a reply",
                                n.lineno,
                            )
                    elif why:
                        ctx.ok("R8.1", where(fi), f"{norm(n, 50)}: {why}")
                    elif _in_try_catching(n, fi, {"ValueError"}):
                        ctx.ok("R8.1", where(fi), f"{norm(n, 50)}: inside try/except ValueError", nontrivial=False)
                    elif fi.module != "parse":
                        pass
                    else:
                        ctx.bad("R8.1", fi.module, fi.qual, norm(n, 100), "int() on a value not proven to be a digit string: ValueError can escape parse()", n.lineno)
                elif nm in ("date", "datetime") and isinstance(f, ast.Name) and fi.module == "parse":
                    n_sites += 1
                    h = _in_try_catching(n, fi, {"ValueError"})
                    why = None
                    if h is None:
                        # discharge by numeric range of the regex groups
                        why = _date_range_ok(p, fi, n)
                    if h is not None:
                        ctx.ok("R8.1", where(fi), f"{nm}(...) inside try/except ValueError")
                    elif why:
                        ctx.ok("R8.1", where(fi), f"{nm}(...): {why}")
                    else:
                        ctx.bad(
                            "R8.1", fi.module, fi.qual, norm(n, 120),
                            f"{nm}() is built from regex groups that admit impossible dates (day \\d?\\d = 0..99): e.g. "
                            "`SEARCH BEFORE 31-Feb-2020` raises ValueError out of parse() and the connection is dropped without a reply",
                            n.lineno,
                        )
                elif nm in ("parsedate", "parsedate_to_datetime") and fi.module == "parse":
                    n_sites += 1
                    if _in_try_catching(n, fi, {"ValueError", "TypeError"}):
                        ctx.ok("R8.1", where(fi), f"{nm}(...) inside try/except ValueError")
                    else:
                        ctx.bad(
                            "R8.1", fi.module, fi.qual, norm(n, 120),
                            "parsedate() raises ValueError on impossible date-times the regex lets through (e.g. APPEND ... "
                            "\"31-Feb-2020 25:61:61 +0000\"): the exception escapes parse()",
                            n.lineno,
                        )
                elif isinstance(f, ast.Name) and f.id in p.classes and any("Enum" in b for ci in p.mro(f.id) for b in ci.bases) and n.args:
                    n_sites += 1
                    if _in_try_catching(n, fi, {"ValueError"}):
                        ctx.ok("R8.1", where(fi), f"{f.id}(value) inside try/except ValueError")
                    else:
                        ctx.bad("R8.1", fi.module, fi.qual, norm(n, 100), "enum constructor outside try/except ValueError", n.lineno)
            elif isinstance(n, ast.Subscript) and isinstance(n.value, ast.Name) and isinstance(n.ctx, ast.Load) and fi.module == "parse":
                dn = n.value.id
                if dn in ("_month", "STR_TO_FETCH_OP", "flag_to_str"):
                    n_sites += 1
                    why = _discharge_dict(p, fi, n)
                    if why:
                        ctx.ok("R8.1", where(fi), f"{norm(n, 50)}: {why}")
                    elif fi.name in ("__str__", "__repr__"):
                        continue
                    else:
                        ctx.bad("R8.1", fi.module, fi.qual, norm(n, 100), f"KeyError from {dn}[...] can escape parse()", n.lineno)
    ctx.floor("R8.1", n_sites, 40, "raise/assert/partial-operation sites in the parse graph")
    # callers catch exactly BadCommand and answer BAD
    for key in ("user_server.IMAPClientProxy.run", "server.IMAPSubprocessInterface.unauthenticated"):
        fi = p.func(key)
        ctx.analysed(fi)
        okc = False
        for t in ast.walk(fi.node):
            if isinstance(t, ast.Try) and any(call_name(c) in ("parse", "parse_cmd_from_msg") for s in t.body for c in calls_in(s)):
                for h in t.handlers:
                    if h.type is not None and norm(h.type) == "BadCommand":
                        if any(" BAD " in norm(c) or "* BAD" in norm(c) for s in h.body for c in ast.walk(s) if isinstance(c, ast.JoinedStr)):
                            okc = True
        if okc:
            ctx.ok("R8.1", where(fi), "caller of parse() catches BadCommand and answers BAD")
        else:
            ctx.bad("R8.1", fi.module, fi.qual, "except BadCommand -> BAD", "caller of parse() no longer maps BadCommand to a BAD reply", fi.node.lineno)


def _search_ops_constant(p) -> bool:
    ops = set(_enum_values(p, "search", "SearchOp"))
    n = 0
    for fi in p.funcs_in("parse"):
        for c in calls_in(fi.node):
            if isinstance(c.func, ast.Name) and c.func.id == "IMAPSearch":
                n += 1
                if not (c.args and isinstance(c.args[0], ast.Constant) and c.args[0].value in ops):
                    return False
    return n > 0


def _date_range_ok(p, fi, call):
    return None  # day \d?\d and month tables cannot bound day-of-month validity


def _const_seq(p, module, node):
    """elements of a module-level list/tuple of constants (directly or through a name)"""
    if isinstance(node, ast.Name):
        try:
            node = p.module_constant(module, node.id)
        except Exception:  # noqa: BLE001
            return None
    if isinstance(node, (ast.List, ast.Tuple)) and all(isinstance(e, ast.Constant) for e in node.elts):
        return [e.value for e in node.elts]
    return None


def _const_dict_keys(p, module, node):
    """Key set of a module-level table: a dict literal, `{k: n for n, k in enumerate(NAMES, ...)}`, `{k: ... for k in NAMES}`
    or `dict(zip(NAMES, ...))` over a constant sequence."""
    try:
        return set(ast.literal_eval(node))
    except Exception:  # noqa: BLE001
        pass
    if isinstance(node, ast.DictComp) and len(node.generators) == 1 and not node.generators[0].ifs and isinstance(node.key, ast.Name):
        g = node.generators[0]
        it = g.iter
        if isinstance(it, ast.Call) and call_name(it) == "enumerate" and it.args and isinstance(g.target, ast.Tuple) and len(g.target.elts) == 2 and isinstance(g.target.elts[1], ast.Name) and g.target.elts[1].id == node.key.id:
            seq = _const_seq(p, module, it.args[0])
            return set(seq) if seq is not None else None
        if isinstance(g.target, ast.Name) and g.target.id == node.key.id:
            seq = _const_seq(p, module, it)
            return set(seq) if seq is not None else None
    if isinstance(node, ast.Call) and isinstance(node.func, ast.Name) and node.func.id == "dict" and len(node.args) == 1 and isinstance(node.args[0], ast.Call) and call_name(node.args[0]) == "zip" and node.args[0].args:
        seq = _const_seq(p, module, node.args[0].args[0])
        return set(seq) if seq is not None else None
    return None


def _discharge_dict(p, fi, sub):
    dn = sub.value.id
    key = sub.slice
    if dn == "_month":
        # key = match.group("month").lower(); group is a literal alternation whose lower-cased words == dict keys
        keys = _const_dict_keys(p, "parse", p.module_constant("parse", "_month"))
        if keys is None:
            return None
        k = key
        if isinstance(k, ast.Call) and call_name(k) == "lower":
            k = call_recv(k)
        if isinstance(k, ast.Call) and call_name(k) == "group" and k.args and isinstance(k.args[0], ast.Constant):
            m = call_recv(k)
            d = _local_def(fi, m.id, sub.lineno) if isinstance(m, ast.Name) else None
            if isinstance(d, ast.Call) and isinstance(call_recv(d), ast.Name):
                pat = _regex_const(p, call_recv(d).id)
                alts = rl.group_literal_alternatives(pat, k.args[0].value) if pat else None
                if alts is not None and alts <= keys:
                    return f"group {k.args[0].value!r} alternatives {sorted(alts)[:3]}... are all keys of _month"
        return None
    if dn == "STR_TO_FETCH_OP":
        # every ParseFetchAtt value not handled by an explicit arm must be a FetchOp value
        pf = _enum_values(p, "parse", "ParseFetchAtt")
        fo = _enum_values(p, "fetch", "FetchOp")
        handled = {"rfc822", "rfc822.size", "rfc822.header", "rfc822.text", "body.peek"}
        rest = set(pf) - handled
        if rest <= set(fo):
            return f"tokens reaching the lookup {sorted(rest)} are all FetchOp values"
        return None
    if dn == "flag_to_str":
        return "debug rendering only"
    return None


def _enum_values(p, mod, cname):
    ci = p.classes_by_mod.get(f"{mod}.{cname}")
    if ci is None:
        raise AnalysisError(f"anchor enum vanished: {mod}.{cname}")
    out = {}
    for s in ci.node.body:
        if isinstance(s, ast.Assign) and isinstance(s.targets[0], ast.Name) and isinstance(s.value, ast.Constant):
            out[s.value.value] = s.targets[0].id
    return out


# ----------------------------------------------------------------------------
def r8_2(ctx):
    p = ctx.p
    fi = p.func("parse.IMAPClientCommand._parse")
    g = ctx.cfg(fi)
    fam = _bad_family(p)
    pc = [n.id for n in g.nodes if n.ast is not None and n.kind == "stmt" and any(call_name(c) == "_parse_command" for c in calls_in(n.ast))]
    ctx.require(pc, "_parse: call of _parse_command not found")
    # an end-of-input test: `if <expr mentioning self.input>: raise <BadCommand family>` after the call
    eoi = []
    for s in body_walk(fi.node):
        if isinstance(s, ast.If) and "self.input" in norm(s.test) and s.lineno > g.nodes[pc[0]].line:
            if any(isinstance(x, ast.Raise) and x.exc is not None and (norm(x.exc.func) if isinstance(x.exc, ast.Call) else norm(x.exc)).split(".")[-1] in fam for x in s.body):
                eoi.append(s)
    if eoi:
        from .. import flow

        en = set()
        for s in eoi:
            en.update(g.nodes_for(s))
        w = flow.escapes_without(g, pc[0], lambda n: n in en, [g.exit])
        ctx.paths_explored += 1
        if w is None:
            ctx.ok("R8.2", where(fi), f"remaining input tested after the command is parsed: `if {norm(eoi[0].test, 60)}: raise ...`")
            return
    ctx.bad(
        "R8.2", fi.module, fi.qual, "no end-of-input test after self._parse_command(...)",
        "_parse returns without checking that the whole line was consumed: `a NOOP garbage` is accepted with ' garbage' "
        "unparsed, `a SELECT inboxes` selects inbox and ignores 'es'",
        fi.node.lineno,
    )


def r8_3(ctx):
    p = ctx.p
    fi = p.func("parse.IMAPClientCommand._p_mailbox")
    ctx.analysed(fi)
    # prefix match of "inbox" on the raw input = defect; whole-token comparison = ok
    prefix = [c for c in calls_in(fi.node) if call_name(c) == "_p_simple_string" and c.args and isinstance(c.args[0], ast.Constant) and str(c.args[0].value).lower() == "inbox"]
    # arm-exact: the comparison is positive in the arm that returns the constant 'inbox'
    whole = []
    for iff in [n for n in body_walk(fi.node) if isinstance(n, ast.If)]:
        if not any(isinstance(b, ast.Return) and isinstance(b.value, ast.Constant) and b.value.value == "inbox" for b in iff.body):
            continue
        n_before = len(whole)
        for n, pos in polarity_atoms(iff.test):
            if isinstance(n, ast.Compare) and isinstance(n.left, ast.Call) and call_name(n.left) in ("lower", "casefold") and len(n.comparators) == 1 and isinstance(n.comparators[0], ast.Constant) and n.comparators[0].value == "inbox":
                if (isinstance(n.ops[0], ast.Eq) and pos) or (isinstance(n.ops[0], ast.NotEq) and not pos):
                    if isinstance(iff.test, (ast.Compare, ast.UnaryOp)):  # the whole test, not one disjunct among others
                        whole.append(n)
        if len(whole) == n_before:
            ctx.bad("R8.3", fi.module, fi.qual, f"if {norm(iff.test, 60)}: return 'inbox'", "an arm that returns the inbox is not taken exactly when the name equals INBOX case-insensitively: other names are turned into the inbox (or INBOX is not)", iff.lineno)
    boundary = any("self.input" in norm(s.test) for s in body_walk(fi.node) if isinstance(s, ast.If)) if prefix else False
    if prefix and not boundary:
        ctx.bad(
            "R8.3", fi.module, fi.qual, norm(prefix[0]),
            "INBOX is recognised by a case-insensitive *prefix* match on the raw input with no token-boundary test: "
            "`SELECT inboxes` / `CREATE Inbox2` are read as INBOX followed by unparsed text; and a quoted \"INBOX\" is not normalised",
            prefix[0].lineno,
        )
    elif whole or (prefix and boundary):
        ctx.ok("R8.3", where(fi), "INBOX recognised by whole-token case-insensitive comparison")
    else:
        ctx.bad("R8.3", fi.module, fi.qual, "_p_mailbox", "_p_mailbox no longer recognises INBOX case-insensitively", fi.node.lineno)
    # ... and the comparison has to see the name in the form that is handed on: a name that only becomes `inbox` through the
    # normalisation (`INBOX/`, `./inbox`, `/Inbox`) must be recognised too, else it names a second mailbox beside the inbox
    name_rets = [r for r in body_walk(fi.node) if isinstance(r, ast.Return) and isinstance(r.value, ast.Name)]
    for r in name_rets:
        v = r.value.id
        rewrites = [
            s_ for s_ in body_walk(fi.node)
            if isinstance(s_, ast.Assign) and norm(s_.targets[0]) == v and isinstance(s_.value, ast.Call) and call_name(s_.value) in ("normpath", "lstrip", "strip", "rstrip", "removeprefix", "removesuffix")
        ]
        if not rewrites:
            continue
        last = max(rewrites, key=lambda s_: s_.lineno)
        tests_after = [w for w in whole if w.lineno > last.lineno and norm(call_recv(w.left)) == v]
        if tests_after:
            ctx.ok("R8.3", where(fi), f"`{v}` is compared with 'inbox' again after its last normalisation ({norm(last, 50)})")
        else:
            ctx.bad(
                "R8.3", fi.module, fi.qual, f"no INBOX test after {norm(last, 60)}",
                f"the INBOX comparison only sees the name as the client wrote it; after `{norm(last, 50)}` names like `INBOX/`, `./inbox` "
                "or `/INBOX` are the inbox too but are handed on as a different mailbox `INBOX` (a second inbox beside the real one)",
                last.lineno,
            )
        # the same for the first level of the name: `/INBOX/lists`, `./Inbox/lists` are below the inbox too - the fold of a
        # leading INBOX level has to see the name after its last normalisation as well
        folds = [s_ for s_ in body_walk(fi.node) if isinstance(s_, ast.If) and any(isinstance(n_, ast.Compare) and isinstance(n_.left, ast.Call) and call_name(n_.left) in ("lower", "casefold") and isinstance(n_.comparators[0], ast.Constant) and n_.comparators[0].value == "inbox" for n_ in ast.walk(s_.test)) and any(isinstance(b_, ast.Assign) and norm(b_.targets[0]) == v and "'inbox'" in norm(b_.value) for b_ in s_.body)]
        if folds:
            if any(f_.lineno > last.lineno for f_ in folds):
                ctx.ok("R8.3", where(fi), f"a leading INBOX level of `{v}` is folded after its last normalisation")
            else:
                ctx.bad("R8.3", fi.module, fi.qual, f"first-level INBOX fold before {norm(last, 60)}", f"the fold of a leading `INBOX/` level looks at the name before `{norm(last, 50)}`: `/INBOX/lists`, `./Inbox/lists` or `//INBOX//lists` are normalised to `INBOX/lists` afterwards and handed on as a mailbox in a second hierarchy beside the inbox", folds[0].lineno)
    # the list-pattern variant
    lp = p.func("parse.IMAPClientCommand._p_list_mailbox_pattern")
    from .common import pm_of
    if pm_of(p, lp).has("if pattern.lower() == 'inbox':\n    return 'inbox'"):
        ctx.ok("R8.3", where(lp), "list pattern: whole-token INBOX normalisation", nontrivial=False)
    else:
        ctx.bad("R8.3", lp.module, lp.qual, "pattern.lower() == 'inbox'", "list pattern INBOX normalisation lost", lp.node.lineno)


def r8_4(ctx):
    p = ctx.p
    cmds = _enum_values(p, "parse", "IMAPCommand")  # value -> NAME
    ctx.exhaustive_rules.add("R8.4")
    pc = p.func("parse.IMAPClientCommand._parse_command")
    ctx.analysed(pc)
    arms = set()
    arm_body = {}
    for n in body_walk(pc.node):
        if isinstance(n, ast.Match):
            for c in n.cases:
                pats = c.pattern.patterns if isinstance(c.pattern, ast.MatchOr) else [c.pattern]
                for pt in pats:
                    if isinstance(pt, ast.MatchValue) and isinstance(pt.value, ast.Attribute) and norm(pt.value.value) == "IMAPCommand":
                        arms.add(pt.value.attr)
                        arm_body[pt.value.attr] = c.body
    names = set(cmds.values())
    for nm in sorted(names):
        if nm in arms:
            ctx.ok("R8.4", where(pc), f"IMAPCommand.{nm} has a parse arm", nontrivial=False)
        else:
            ctx.bad("R8.4", pc.module, pc.qual, f"IMAPCommand.{nm}", f"command {nm} has no arm in _parse_command (falls to UnknownCommand)", pc.node.lineno)
    for a in sorted(arms - names):
        ctx.bad("R8.4", pc.module, pc.qual, f"case IMAPCommand.{a}", "parse arm for a command that is not an IMAPCommand member", pc.node.lineno)
    # handlers
    auth = {m for ci in p.mro("Authenticated") for m in ci.methods if m.startswith("do_")}
    for val, nm in sorted(cmds.items()):
        if nm == "UID":
            continue
        if f"do_{val}" in auth:
            ctx.ok("R8.4", "client:Authenticated", f"do_{val} exists", nontrivial=False)
        else:
            ctx.bad("R8.4", "client", "Authenticated", f"do_{val}", f"command {nm} parses but has no do_{val} handler (answered BAD 'not a valid command')", 0)
    # uid_commands: each arm parses a set
    try:
        uidc = ast.literal_eval(p.module_constant("parse", "uid_commands"))
    except Exception:
        raise AnalysisError("anchor not evaluable: parse.uid_commands")
    for u in uidc:
        nm = cmds.get(u)
        body = arm_body.get(nm, [])
        txt = " ".join(norm(s, 300) for s in body)
        helper = {"search": "_p_search", "store": "_p_store"}.get(u)
        ok = "_p_msg_set" in txt or (helper and helper in txt)
        if ok:
            ctx.ok("R8.4", where(pc), f"UID {u.upper()}: arm parses a message set / search program", nontrivial=False)
        else:
            ctx.bad("R8.4", pc.module, pc.qual, f"uid_commands: {u}", f"UID {u} is allowed but its arm parses no message set", pc.node.lineno)
    # the conditional set of UID EXPUNGE
    ex = arm_body.get("EXPUNGE", [])
    if any(isinstance(s, ast.If) and norm(s.test) == "self.uid_command" and "_p_msg_set" in " ".join(norm(b) for b in s.body) for s in ex):
        ctx.ok("R8.4", where(pc), "EXPUNGE takes a set exactly in its UID form", nontrivial=False)
    else:
        ctx.bad("R8.4", pc.module, pc.qual, "case IMAPCommand.EXPUNGE", "EXPUNGE arm no longer parses the UID set only for UID EXPUNGE", pc.node.lineno)
    # ParseFetchAtt tokens handled
    pf = _enum_values(p, "parse", "ParseFetchAtt")
    fo = _enum_values(p, "fetch", "FetchOp")
    handled = {"rfc822", "rfc822.size", "rfc822.header", "rfc822.text", "body.peek", "body"}
    for tok in sorted(set(pf) - handled):
        if tok in fo:
            ctx.ok("R8.4", "parse:ParseFetchAtt", f"fetch token {tok!r} maps to FetchOp", nontrivial=False)
        else:
            ctx.bad("R8.4", "parse", "ParseFetchAtt", tok, f"fetch attribute {tok!r} parses but has no FetchOp", 0)
    # ordering: longest common-prefix tokens first (rfc822.* before rfc822, body.peek before body, bodystructure before body)
    order = list(pf.keys())
    for longer, shorter in (("rfc822.header", "rfc822"), ("rfc822.size", "rfc822"), ("rfc822.text", "rfc822"), ("body.peek", "body"), ("bodystructure", "body")):
        if longer in order and shorter in order and order.index(longer) < order.index(shorter):
            ctx.ok("R8.4", "parse:ParseFetchAtt", f"{longer!r} listed before {shorter!r}", nontrivial=False)
        elif longer in order and shorter in order:
            # membership test (`in ParseFetchAtt`) is order-independent; only matters for prefix scans
            ctx.ok("R8.4", "parse:ParseFetchAtt", f"{longer!r} after {shorter!r} (token matched whole by regex, order irrelevant)", nontrivial=False)
    # capabilities that introduce commands
    try:
        caps = ast.literal_eval(p.module_constant("client", "CAPABILITIES"))
    except Exception:
        caps = None
    if caps is not None:
        need = {"IDLE": ["idle"], "NAMESPACE": ["namespace"], "ID": ["id"], "UIDPLUS": ["expunge"], "MOVE": ["move"], "UNSELECT": ["unselect"], "LIST-EXTENDED": ["list"], "LIST-STATUS": ["list"], "SPECIAL-USE": ["list"], "CHILDREN": ["list"], "LITERAL+": []}
        for c in caps:
            for v in need.get(c, []):
                if f"do_{v}" in auth and v in cmds:
                    ctx.ok("R8.4", "client:CAPABILITIES", f"capability {c}: command {v} parses and has a handler", nontrivial=False)
                else:
                    ctx.bad("R8.4", "client", "<module>", f"CAPABILITIES: {c}", f"capability {c} is advertised but command {v} is missing", 0)


def r8_5(ctx):
    p = ctx.p
    fi = p.func("parse.IMAPClientCommand._p_string")
    ctx.analysed(fi)
    rets = [s for s in body_walk(fi.node) if isinstance(s, ast.Return) and s.value is not None and "_quoted_re" in norm(s.value, 300)]
    if not rets:
        # quoted value bound to a name first
        rets = [s for s in body_walk(fi.node) if isinstance(s, ast.Assign) and "_quoted_re" in norm(s.value, 300)]
    ctx.require(rets, "_p_string: quoted-string arm not found")
    txt = " ".join(norm(s, 400) for s in fi.node.body)
    unesc = ("replace('\\\\\\\\'" in txt or "replace('\\\\\"'" in txt or "re.sub(" in txt or ".sub(" in txt or "_unescape" in txt or "unescape" in txt)
    if unesc:
        ctx.ok("R8.5", where(fi), "quoted-string value passes through an unescape of \\\\ and \\\"")
    else:
        ctx.bad(
            "R8.5", fi.module, fi.qual, norm(rets[0], 100),
            "the quoted-string arm returns the text between the quotes verbatim: `LOGIN u \"pa\\\"ss\"` yields the password "
            "pa\\\"ss (backslash kept) instead of pa\"ss",
            rets[0].lineno,
        )


def r8_5b(ctx):
    """Literals are taken by octet count and handed on untouched: the escape decoding of quoted strings must not reach the
    literal arm of _p_string (an APPENDed message, a password, a mailbox name given as a literal may contain `\\"` and `\\\\`)."""
    p = ctx.p
    fi = p.func("parse.IMAPClientCommand._p_string")
    ctx.analysed(fi)
    lit = [s_ for s_ in body_walk(fi.node) if isinstance(s_, ast.Assign) and isinstance(s_.value, ast.Subscript) and norm(s_.value.value) == "self.input" and isinstance(s_.value.slice, ast.Slice) and s_.value.slice.lower is None and isinstance(s_.targets[0], ast.Name)]
    ctx.require(lit, "_p_string: literal slice of the input not found")
    var = lit[0].targets[0].id
    # every use of the literal's variable is a plain `return var` (or the slice bookkeeping of self.input)
    bad = []
    for n in body_walk(fi.node):
        if isinstance(n, ast.Call) and any(isinstance(x, ast.Name) and x.id == var for a in list(n.args) + [k.value for k in n.keywords] for x in ast.walk(a)):
            if call_name(n) not in ("len",):
                bad.append(n)
    rets = [r for r in body_walk(fi.node) if isinstance(r, ast.Return) and r.value is not None and var in names_in(r.value)]
    if bad:
        ctx.bad("R8.5", fi.module, fi.qual, norm(bad[0], 80), f"the octets of a literal pass through `{norm(bad[0], 60)}` before they are handed on: a literal containing a backslash followed by `\"` or `\\` (an APPENDed message, a password) is silently rewritten", bad[0].lineno)
    elif rets and all(isinstance(r.value, ast.Name) for r in rets):
        ctx.ok("R8.5", where(fi), f"the literal arm returns the counted slice `{var}` untouched")
    else:
        ctx.bad("R8.5", fi.module, fi.qual, f"return {var}", "the literal arm of _p_string no longer returns the counted slice of the input as it is", lit[0].lineno)


def r8_6(ctx):
    p = ctx.p
    # entry points decode with latin-1
    pm = p.func("parse.parse_cmd_from_msg")
    ctx.analysed(pm)
    if any(isinstance(c.func, ast.Name) and c.func.id == "str" and len(c.args) == 2 and isinstance(c.args[1], ast.Constant) and c.args[1].value.lower() in ("latin-1", "latin1", "iso-8859-1") for c in calls_in(pm.node)):
        ctx.ok("R8.6", where(pm), "pre-auth entry decodes bytes 1:1 (latin-1)")
    else:
        ctx.bad("R8.6", pm.module, pm.qual, "str(msg, 'latin-1')", "pre-auth entry no longer decodes bytes with a 1:1 codec: literal octet counts stop matching character counts", pm.node.lineno)
    from .common import pm_of
    run = p.func("user_server.IMAPClientProxy.run")
    prun = pm_of(p, run)
    if prun.has("msg = await self.reader.readexactly(length)") and (prun.has("imap_msg = str(msg, 'latin-1')") or prun.has("imap_msg = msg.decode('latin-1')")) and prun.has("IMAPClientCommand(imap_msg)"):
        ctx.ok("R8.6", where(run), "proxy decodes bytes 1:1 (latin-1)")
    else:
        ctx.bad("R8.6", run.module, run.qual, "imap_msg = str(msg, 'latin-1')", "proxy no longer decodes with a 1:1 codec", run.node.lineno)
    # front end re-inserts exactly CRLF after a literal header, agreeing with _lit_ref
    st = p.func("server.IMAPClient.start")
    app = [c for c in calls_in(st.node) if call_name(c) == "append" and norm(call_recv(c)) == "self.ibuffer" and isinstance(c.args[0], ast.Constant)]
    lit = _str_const(p, p.module_constant("parse", "_lit_ref"))
    if app and all(c.args[0].value == b"\r\n" for c in app) and lit is not None and lit.endswith("\\015\\012"):
        ctx.ok("R8.6", where(st), "front end re-inserts exactly CRLF after the literal header; _lit_ref expects '}' CR LF")
    else:
        ctx.bad("R8.6", st.module, st.qual, "self.ibuffer.append(b'\\r\\n')", "literal header terminator re-inserted by the front end disagrees with the parser's _lit_ref", st.node.lineno)
    # literal taken by count
    ps = p.func("parse.IMAPClientCommand._p_string")
    pps = pm_of(p, ps)
    if pps.has("literal_length = int(self._p_re(_lit_ref_re, group=1))") and pps.has("self.input[:literal_length]") and pps.has("self.input = self.input[literal_length:]") and pps.has("if literal_length > len(self.input):\n    raise BadLiteral(...)"):
        ctx.ok("R8.6", where(ps), "literal sliced by its announced count, remainder kept, short input rejected")
    else:
        ctx.bad("R8.6", ps.module, ps.qual, "literal slice by count", "_p_string no longer takes literals strictly by octet count", ps.node.lineno)


def r8_7(ctx):
    """Date-time arguments (APPEND's date-time, the SEARCH date keys) are decoded by utils.parsedate through
    email.utils.parsedate_to_datetime, which already yields the instant the text denotes, zone included; only a text without
    usable zone comes back naive.  The one adjustment allowed is to attach UTC to such a naive result.  Replacing the zone of
    an aware result keeps the wall-clock digits and moves the instant by the zone offset."""
    from .common import pm_of
    p = ctx.p
    fi = p.func("utils.parsedate")
    ctx.analysed(fi)
    reps = [c for c in calls_in(fi.node) if call_name(c) == "replace" and any(k.arg == "tzinfo" for k in c.keywords)]
    pm = pm_of(p, fi)
    guarded = pm.find_all("if dt.tzinfo is None:\n    dt = dt.replace(tzinfo=UTC)") + pm.find_all("if dt.tzinfo is None:\n    return dt.replace(tzinfo=UTC)") + pm.find_all("dt.replace(tzinfo=UTC) if dt.tzinfo is None else dt")
    inside = {id(c) for gnode in guarded for c in calls_in(gnode)}
    loose = [c for c in reps if id(c) not in inside]
    if not pm.has("dt = email.utils.parsedate_to_datetime(datetime_str)") and not pm.has("email.utils.parsedate_to_datetime(datetime_str)"):
        ctx.bad("R8.7", fi.module, fi.qual, "email.utils.parsedate_to_datetime(datetime_str)", "parsedate no longer decodes its argument with email.utils.parsedate_to_datetime", fi.node.lineno)
    elif loose:
        ctx.bad("R8.7", fi.module, fi.qual, norm(loose[0]), "parsedate replaces the zone of a date-time that already carries one: `05-Jan-1999 20:55:23 -0800` is decoded as 20:55:23 UTC, eight hours (possibly a day) away from the instant the client wrote - APPEND stores the wrong internal date", loose[0].lineno)
    else:
        ctx.ok("R8.7", where(fi), "parsedate attaches UTC only to a naive result; an aware result keeps its own zone" if reps else "parsedate returns the decoded date-time unchanged")


ATOM_SPECIALS = set('(){ %*"\\') | {chr(c) for c in range(0, 32)} | {chr(127)}
ASTRING_SAMPLES = "]" + "[" + "abcxyzABCXYZ0189" + ".-_/@+=!#$&',;<>?^`|~:"


def r8_8(ctx):
    """The pattern `_atom` reads every unquoted astring: mailbox names, user names and passwords, search strings, flag
    keywords.  RFC 3501: ASTRING-CHAR = ATOM-CHAR / resp-specials - every character but ( ) { SP CTL % * " and backslash, `]`
    included.  The parser does not check for unread input, so a character the class wrongly excludes cuts the argument
    short without any error: `DELETE work]old` deletes `work`.  The excluded set of the character class is computed from the
    parsed pattern: it contains the atom-specials and none of the other printable characters."""
    import re._parser as sre  # type: ignore[import-not-found]

    p = ctx.p
    node = p.module_constant("parse", "_atom")
    ctx.require(isinstance(node, ast.Constant) and isinstance(node.value, str), "parse._atom is not a constant pattern", anchor=True)
    src = node.value
    try:
        items = list(sre.parse(src))
    except Exception as e:  # noqa: BLE001
        ctx.bad("R8.8", "parse", "<module>", f"_atom = {src!r}", f"the atom pattern does not parse: {e}", node.lineno)
        return
    ok_shape = len(items) == 1 and str(items[0][0]) == "MAX_REPEAT" and items[0][1][0] == 1 and len(list(items[0][1][2])) == 1 and str(list(items[0][1][2])[0][0]) == "IN"
    if not ok_shape:
        ctx.bad("R8.8", "parse", "<module>", f"_atom = {src!r}", "the atom pattern is no longer one repeated character class: what it admits cannot be established", node.lineno)
        return
    cls = list(items[0][1][2])[0][1]
    negated = bool(cls) and str(cls[0][0]) == "NEGATE"
    members = set()
    for op, av in cls:
        name = str(op)
        if name == "LITERAL":
            members.add(chr(av))
        elif name == "RANGE":
            members.update(chr(c) for c in range(av[0], av[1] + 1))
        elif name == "NEGATE":
            pass
        else:
            ctx.bad("R8.8", "parse", "<module>", f"_atom = {src!r}", f"the atom class uses `{name}`: its members cannot be enumerated", node.lineno)
            return
    excluded = members if negated else {chr(c) for c in range(0, 128)} - members
    lets_through = sorted(ATOM_SPECIALS - excluded)
    cuts = [c for c in ASTRING_SAMPLES if c in excluded]
    if lets_through:
        ctx.bad("R8.8", "parse", "<module>", f"_atom = {src!r}", f"the atom pattern admits the atom-special {lets_through[0]!r}: an unquoted argument can swallow a list / literal / quoted-string delimiter", node.lineno)
    elif cuts:
        ctx.bad("R8.8", "parse", "<module>", f"_atom = {src!r}", f"the atom pattern excludes {cuts[0]!r}, which is a legal ASTRING-CHAR: an unquoted mailbox name, user name, password or search string is cut at the first {cuts[0]!r} and the rest is left unread (`DELETE work{cuts[0]}old` deletes `work`)", node.lineno)
    else:
        ctx.ok("R8.8", "parse:<module>", "the atom class excludes exactly the atom-specials (and `}`); `]` and every other printable character is read as part of an astring")


def const_text(p, module, node, depth=0):
    """Value of a module-level str/bytes constant expression (literals, `+`, names of other constants, re.compile(<that>));
    None when it is not one."""
    if isinstance(node, ast.Constant) and isinstance(node.value, (str, bytes)):
        return node.value
    if isinstance(node, ast.BinOp) and isinstance(node.op, ast.Add):
        l, r = const_text(p, module, node.left, depth), const_text(p, module, node.right, depth)
        if l is None or r is None or type(l) is not type(r):
            return None
        return l + r
    if isinstance(node, ast.JoinedStr):
        out = ""
        for v in node.values:
            t = const_text(p, module, v.value if isinstance(v, ast.FormattedValue) else v, depth)
            if not isinstance(t, str):
                return None
            out += t
        return out
    if isinstance(node, ast.Name) and depth < 6:
        try:
            return const_text(p, module, p.module_constant(module, node.id), depth + 1)
        except Exception:  # noqa: BLE001
            return None
    if isinstance(node, ast.Call) and call_name(node) == "compile" and node.args:
        return const_text(p, module, node.args[0], depth)
    return None


def regex_flags(node) -> int:
    import re as _re

    fl = 0
    if isinstance(node, ast.Call) and call_name(node) == "compile":
        for a in list(node.args[1:]) + [k.value for k in node.keywords]:
            for x in ast.walk(a):
                if isinstance(x, ast.Attribute) and x.attr in ("I", "IGNORECASE"):
                    fl |= _re.I
                if isinstance(x, ast.Attribute) and x.attr in ("S", "DOTALL"):
                    fl |= _re.S
                if isinstance(x, ast.Attribute) and x.attr in ("M", "MULTILINE"):
                    fl |= _re.M
    return fl


# (module, compiled constant, how the parser applies it, strings of the grammar it must take whole, why)
GRAMMAR_SAMPLES = [
    ("parse", "_date_time_re", "match",
     ['"17-Jul-1996 02:44:25 -0700"', '" 5-Feb-2024 21:52:25 -0800"', '"05-Feb-2024 21:52:25 -0800"', '"31-dec-1999 23:59:59 +0000"', '" 1-JAN-2000 00:00:00 +1300"'],
     "date-time = DQUOTE date-day-fixed \"-\" date-month \"-\" date-year SP time SP zone DQUOTE; date-day-fixed = (SP DIGIT) / 2DIGIT: the optional date of APPEND"),
    ("parse", "_date_re", "match",
     ["1-Feb-1994", "01-Feb-1994", '"1-Feb-1994"', '"31-Dec-2020"', "7-jul-2007"],
     "date = date-text / DQUOTE date-text DQUOTE; date-day = 1*2DIGIT: the SEARCH date keys"),
]


def r8_9(ctx):
    """The date patterns of the parser are data: whether they take every string of the grammar is read off the pattern, not
    off the code around it.  Each is compiled as the module compiles it and must match, to its end, the sample strings of its
    production - among them the forms a test with one zero-padded date never shows (the SP-padded day of `date-day-fixed`,
    a one-digit `date-day`, month names in any case)."""
    import re as _re

    p = ctx.p
    n = 0
    for module, name, how, samples, why in GRAMMAR_SAMPLES:
        node = p.module_constant(module, name)
        src = const_text(p, module, node)
        ctx.require(isinstance(src, str), f"{module}.{name} is no longer a constant pattern", anchor=True)
        try:
            cre = _re.compile(src, regex_flags(node))
        except _re.error as e:
            ctx.bad("R8.9", module, "<module>", f"{name} = {src[:60]!r}", f"the pattern does not compile: {e}", node.lineno)
            continue
        n += 1
        bad = []
        for s in samples:
            m = getattr(cre, how)(s)
            if m is None or m.end() != len(s):
                bad.append(s)
        if bad:
            ctx.bad("R8.9", module, "<module>", f"{name} does not take {bad[0]!r}", f"a string of the grammar is refused (or cut short) by the pattern that reads it - {why}: a legal command is answered BAD", node.lineno)
        else:
            ctx.ok("R8.9", f"{module}:<module>", f"{name} takes all {len(samples)} sample strings of its production")
    ctx.floor("R8.9", n, 2, "grammar patterns with samples")


def r8_1b(ctx):
    """The caller of parse() answers a BadCommand with `<tag> BAD ...`, taking the tag from the command object - so the object
    is bound to its name *before* parse() is called on it (construction and parse are two statements).  Chained into one
    expression (`cmd = IMAPClientCommand(msg).parse()`) the name is still unbound - or still holds the previous command -
    when the handler runs: the BAD carries the tag of an earlier command, or the handler itself fails (UnboundLocalError)
    and the connection is dropped without any reply."""
    p = ctx.p
    n = 0
    for key in ("user_server.IMAPClientProxy.run", "server.IMAPSubprocessInterface.unauthenticated"):
        fi = p.func(key)
        for t in [x for x in body_walk(fi.node) if isinstance(x, ast.Try)]:
            hs = [h for h in t.handlers if h.type is not None and any(norm(tt).split(".")[-1] in ("BadCommand", "BadSyntax") for tt in (h.type.elts if isinstance(h.type, ast.Tuple) else [h.type]))]
            if not hs:
                continue
            used = {x.value.id for h in hs for x in ast.walk(h) if isinstance(x, ast.Attribute) and x.attr == "tag" and isinstance(x.value, ast.Name)}
            if not used:
                continue
            ctx.analysed(fi)
            for nm in sorted(used):
                n += 1
                defs = [s_ for s_ in t.body if isinstance(s_, ast.Assign) and any(isinstance(tg, ast.Name) and tg.id == nm for tg in s_.targets)]
                if not defs:
                    continue  # bound outside the try: nothing of this try can leave it unbound
                d0 = defs[0]
                raises = any(call_name(c) in ("parse", "parse_cmd_from_msg") for c in calls_in(d0.value))
                if raises:
                    ctx.bad("R8.1", fi.module, fi.qual, norm(d0, 80), f"`{nm}` is bound by the same statement that can raise BadCommand: in the handler that reads `{nm}.tag` it is unbound (first command: the handler fails, the connection is dropped without a BAD) or still the previous command (the BAD carries the wrong tag and the client waits for ever for this one)", d0.lineno)
                else:
                    ctx.ok("R8.1", where(fi), f"`{nm}` is bound before parse() is called on it: the handler's `{nm}.tag` is this command's")
    ctx.floor("R8.1b", n, 1, "BadCommand handlers that read the command's tag")


def run(ctx):
    ctx.do(r8_1)
    ctx.do(r8_1b)
    ctx.do(r8_2)
    ctx.do(r8_3)
    ctx.do(r8_4)
    ctx.do(r8_5)
    ctx.do(r8_5b)
    ctx.do(r8_6)
    ctx.do(r8_7)
    ctx.do(r8_8)
    ctx.do(r8_9)
    from . import c04, c16, c19
    ctx.do(c16.r16_2)
    ctx.do(c19.r19_6_7)
    ctx.do(c04.r4_7)
    ctx.do(c19.r19_4)  # framing state is reset per command
    ctx.do(c19.r19_9)  # a refused literal does not leave its command (or its octets) in front of the next one
    ctx.do(c19.r19_10)  # a long command line is a command or gets a BAD - never a dropped connection
    for k, v in INFEASIBLE_RAISE.items():
        ctx.trust(f"frozen infeasible raise: {k[0]} {k[1]} - {v}")
