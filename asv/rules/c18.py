"""C18 - no access without the right password; brute-force throttling holds.

 R18.1 throttle / authenticate / record ordering in IMAP LOGIN and POP3 PASS
 R18.2 who opens the gate (state stores); forwarders write to the user process only behind the gate
 R18.3 pre-authentication handler surface
 R18.4 shape of the throttle (thresholds, purge test, both tables consulted and updated)
 R18.5 password verification: unknown user / wrong / unusable password never authenticates; reloads replace entries
"""
from __future__ import annotations

import ast

from .. import flow
from ..astutil import atom_polarity, body_walk, call_name, call_recv, calls_in, kwarg, names_in, norm, strip_await, walk_no_nested
from ..loader import AnalysisError
from .common import dispatch_targets, parmap, where

PROP = "C18"
EXPLANATION = (
    "(R18.1) in PreAuthenticated.do_login and POP3SubprocessInterface._do_pass the check_allow(user, addr) test dominates "
    "the authenticate() call and its false arm cannot reach it; every handler arm for an authentication failure calls "
    "login_failed with the same user and address; the store that opens the gate (state = AUTHENTICATED / 'transaction') is "
    "reachable only after authenticate() returned normally (and after the maildir check); (R18.2) the gate state is stored "
    "only at those sites, constructors, LOGOUT, BYE and the relay-done reset; the forwarders write to the user process only "
    "on the arm guarded by the gate state; (R18.3) the do_* methods resolvable on PreAuthenticated are within the frozen "
    "allowed set and none reaches a mailbox operation; (R18.4) check_allow purges an entry exactly when now - last > "
    "PURGE_TIME, returns True early only when *both* keys are absent, denies when count > MAX_USER_ATTEMPTS (user) or count "
    "> MAX_ADDR_ATTEMPTS (address), each against its own table, and login_failed adds exactly 1 and stamps now in both "
    "tables; (R18.5) authenticate raises for an unknown user and when acheck_password is false, verify_password returns "
    "false for None/unusable hashes before any hasher runs, and a password-file reload replaces every parsed entry. "
    "Decides these clauses, not the timed lock-out automaton over event sequences."
)
RULE_TEXT = "instances: each gate-order obligation per login path; each state store; each pre-auth handler; each throttle comparison/update; non-trivial = CFG dominance / path query"
ASSUMPTIONS = ["time.time() is monotone enough for the purge comparison", "not decided: the timed automaton (counts over event sequences)"]
LEVEL_TEXT = (
    "Static dominance/ordering rules on both login paths, who-may-write of the gate state, handler-surface table and "
    "operator-shape checks of the throttle: decides structural necessary conditions; the timed lock-out automaton is a "
    "bounded-exploration question and not claimed."
)
LEVEL_NOTE = "Structural clauses only. Trusted: CPython ast; frozen pre-auth handler set and state-writer table."
TECHNIQUE = "CFG dominance + who-may-write + operator-shape check"
DESIGN_REF = "DESIGN.md section 3 / C18"

PREAUTH_ALLOWED = {"do_capability", "do_noop", "do_logout", "do_id", "do_namespace", "do_idle", "do_done", "do_login", "do_authenticated"}
STATE_WRITERS = {
    "client.BaseClientHandler.__init__": "initial NOT_AUTHENTICATED",
    "client.BaseClientHandler.unceremonious_bye": "LOGGED_OUT",
    "client.BaseClientHandler.do_logout": "LOGGED_OUT",
    "client.PreAuthenticated.do_login": "AUTHENTICATED after authenticate()",
    "client.Authenticated.__init__": "user process: already authenticated by the front end",
    "client.Authenticated.do_select": "SELECTED/AUTHENTICATED inside the user process",
    "client.Authenticated.do_unselect": "AUTHENTICATED inside the user process",
    "client.Authenticated.do_close": "AUTHENTICATED inside the user process",
    "server.IMAPSubprocessInterface.msgs_to_client_done": "reset to NOT_AUTHENTICATED when the relay ends",
    "pop3_server.POP3SubprocessInterface.__init__": "initial 'authorization'",
    "pop3_server.POP3SubprocessInterface._do_pass": "'transaction' after authenticate()",
}


def _gate_order(ctx, fi, state_pred, what):
    g = ctx.cfg(fi)
    chk = [n.id for n in g.nodes if n.kind == "test" and any(call_name(c) == "check_allow" for c in calls_in(n.ast))]
    auth = [n.id for n in g.nodes if n.ast is not None and n.kind == "stmt" and any(call_name(c) == "authenticate" for c in calls_in(n.ast))]
    opens = [n.id for n in g.nodes if n.kind == "stmt" and isinstance(n.ast, ast.Assign) and state_pred(n.ast)]
    ctx.require(auth, f"{fi.key}: authenticate() call not found")
    if not chk:
        ctx.bad("R18.1", fi.module, fi.qual, "check_allow(...)", f"{what}: the throttle is no longer consulted before authenticate()", fi.node.lineno)
    else:
        # dominance: every path entry -> authenticate passes the check_allow test
        w = flow.dominated_by(g, auth[0], lambda n: n in chk)
        ctx.paths_explored += 1
        # false arm cannot reach authenticate:  test is `not check_allow(..)`: true-edge = denied
        t = g.nodes[chk[0]].ast
        pos = atom_polarity(t, lambda x: isinstance(x, ast.Call) and call_name(x) == "check_allow")
        denied_label = "false" if pos else "true"  # `if not check_allow(..)`: the body (true edge) is the refusal
        denied_succ = [e.dst for e in g.out[chk[0]] if e.label == denied_label]
        seen = flow.reach(g, denied_succ, flow.NORMAL)
        leak = auth[0] in seen
        if w is None and not leak:
            ctx.ok("R18.1", where(fi), f"{what}: check_allow dominates authenticate(); the denied arm cannot reach it")
        else:
            ctx.bad("R18.1", fi.module, fi.qual, "check_allow -> authenticate", f"{what}: authenticate() can be reached without passing the throttle test (or from its denied arm): a locked-out user/address still gets its password tested", g.nodes[auth[0]].line, flow.fmt_path(g, w) if w else "")
        # arguments: (user, addr) - the address key must be the peer's *address* (rem_addr), not a per-connection name
        cc = [c for c in calls_in(t) if call_name(c) == "check_allow"][0]
        for call in [cc] + [c for c in calls_in(fi.node) if call_name(c) == "login_failed"]:
            if len(call.args) < 2:
                continue
            a = call.args[1]
            srcs = [a]
            if isinstance(a, ast.Name):
                srcs = [s_.value for s_ in body_walk(fi.node) if isinstance(s_, ast.Assign) and norm(s_.targets[0]) == a.id]
            if srcs and all(isinstance(x, ast.Attribute) and x.attr == "rem_addr" for x in srcs):
                ctx.ok("R18.1", where(fi), f"{call_name(call)}: address key is the peer address ({norm(srcs[0])})")
            else:
                ctx.bad("R18.1", fi.module, fi.qual, f"{call_name(call)}(…, {norm(a)})", f"{what}: the address key of the throttle is `{norm(srcs[0]) if srcs else norm(a)}`, not the peer's address (rem_addr): failures are counted per connection (addr:port) and a host that reconnects for each guess is never locked out", call.lineno)
        ctx.ok("R18.1", where(fi), f"throttle consulted with ({norm(cc.args[0])}, {norm(cc.args[1])})", nontrivial=False)
    # failure arms record the failure
    fails = []
    for h in [x for x in ast.walk(fi.node) if isinstance(x, ast.ExceptHandler)]:
        hn = norm(h.type) if h.type is not None else ""
        if any(k in hn for k in ("AuthenticationException", "NoSuchUser", "BadAuthentication")):
            fails.append(h)
    if not fails:
        ctx.bad("R18.1", fi.module, fi.qual, "except <authentication failure>", f"{what}: authentication failures are no longer handled (and recorded)", fi.node.lineno)
    for h in fails:
        lf = [c for s in h.body for c in calls_in(s) if call_name(c) == "login_failed"]
        if lf and chk:
            cc = [c for c in calls_in(g.nodes[chk[0]].ast) if call_name(c) == "check_allow"][0]
            same = [norm(a) for a in lf[0].args] == [norm(a) for a in cc.args] or (fi.name == "_do_pass" and [norm(a) for a in lf[0].args] == ["self.username", "remote_ip"])
            if same:
                ctx.ok("R18.1", where(fi), f"{what}: failure arm records login_failed({', '.join(norm(a) for a in lf[0].args)}) - the keys the throttle tests")
            else:
                ctx.bad("R18.1", fi.module, fi.qual, norm(lf[0]), f"{what}: the failure is recorded under other keys than check_allow tests", lf[0].lineno)
        elif not lf:
            ctx.bad("R18.1", fi.module, fi.qual, f"except {norm(h.type)}", f"{what}: a failed authentication is not recorded with login_failed(): unlimited guessing", h.lineno)
    # gate opens only after authenticate returned normally
    if not opens:
        ctx.bad("R18.1", fi.module, fi.qual, "state store", f"{what}: the store that opens the gate was not found", fi.node.lineno)
    for o in opens:
        w = flow.dominated_by(g, o, lambda n: n in auth, flow.ALL)
        ctx.paths_explored += 1
        # and must be reached from authenticate through normal edges only (not via its exception edge)
        norm_succ = [e.dst for e in g.out[auth[0]] if e.label in flow.NORMAL]
        seen = flow.reach(g, norm_succ, flow.NORMAL)
        exc_succ = [e.dst for e in g.out[auth[0]] if e.label not in flow.NORMAL]
        seen_exc = flow.reach(g, exc_succ, flow.ALL) if exc_succ else {}
        if w is None and o in seen and o not in seen_exc:
            ctx.ok("R18.1", where(fi), f"{what}: gate state stored only after authenticate() returned normally")
        else:
            ctx.bad("R18.1", fi.module, fi.qual, norm(g.nodes[o].ast), f"{what}: the authenticated state can be stored on a path where authenticate() did not return normally", g.nodes[o].line)
    return g


def r18_1(ctx):
    p = ctx.p
    dl = p.func("client.PreAuthenticated.do_login")
    _gate_order(ctx, dl, lambda a: norm(a.targets[0]) == "self.state" and "AUTHENTICATED" in norm(a.value) and "NOT_" not in norm(a.value), "IMAP LOGIN")
    # maildir check between authenticate and the gate
    t = norm(dl.node, 10000)
    if "self.user.maildir.exists() and self.user.maildir.is_dir()" in t:
        ctx.ok("R18.1", where(dl), "maildir existence checked before the state changes", nontrivial=False)
    dp = p.func("pop3_server.POP3SubprocessInterface._do_pass")
    _gate_order(ctx, dp, lambda a: norm(a.targets[0]) == "self.state" and isinstance(a.value, ast.Constant) and a.value.value == "transaction", "POP3 PASS")
    # authenticate gets the password the client sent
    for fi, want in ((dl, ["cmd.user_name", "cmd.password"]), (dp, ["self.username", "password"])):
        c = [c for c in calls_in(fi.node) if call_name(c) == "authenticate"][0]
        if [norm(a) for a in c.args] == want:
            ctx.ok("R18.1", where(fi), f"authenticate({', '.join(want)})", nontrivial=False)
        else:
            ctx.bad("R18.1", fi.module, fi.qual, norm(c), "authenticate() is not called with the user name and password the client sent", c.lineno)


def r18_2(ctx):
    p = ctx.p
    n = 0
    for fi in p.functions.values():
        if fi.module in ("hashers", "mbox", "pop3_client"):
            continue
        for s in body_walk(fi.node):
            if isinstance(s, ast.Assign):
                for t in s.targets:
                    if isinstance(t, ast.Attribute) and t.attr == "state" and ("client_handler" in norm(t.value) or norm(t.value) == "self") and fi.cls in ("BaseClientHandler", "PreAuthenticated", "Authenticated", "IMAPSubprocessInterface", "POP3SubprocessInterface"):
                        n += 1
                        ctx.analysed(fi)
                        if fi.key in STATE_WRITERS:
                            ctx.ok("R18.2", where(fi), f"{norm(s, 60)} - {STATE_WRITERS[fi.key]}", nontrivial=False)
                        else:
                            ctx.bad("R18.2", fi.module, fi.qual, norm(s), "the session's authentication state is stored outside the frozen writer set: a new way to open the gate", s.lineno)
    ctx.floor("R18.2", n, 9, "stores to the authentication state")
    # forwarders
    for key, test, fwd in (
        ("server.IMAPSubprocessInterface.message", "self.client_handler.state == 'authenticated'", "self.push("),
        ("pop3_server.POP3SubprocessInterface.message", "self.state == 'transaction'", "self.push_to_subprocess("),
    ):
        fi = p.func(key)
        g = ctx.cfg(fi)
        fw = [n.id for n in g.nodes if n.ast is not None and n.kind == "stmt" and fwd in norm(n.ast, 300)]
        # the gate test in either spelling (`== 'transaction'` taken on the true arm, `!= 'transaction'` on the false arm):
        # every path to a forwarding statement carries the fact "gate expression is true"
        gate_l, gate_r = test.split(" == ")

        def classify(e):
            if isinstance(e, ast.Compare) and len(e.ops) == 1 and isinstance(e.ops[0], ast.Eq) and norm(e.left) == gate_l and norm(e.comparators[0]) == gate_r:
                return "gate"
            return None

        def kills(nid):
            a = g.nodes[nid].ast
            if g.nodes[nid].kind == "stmt" and isinstance(a, (ast.Assign, ast.AugAssign)):
                ts = a.targets if isinstance(a, ast.Assign) else [a.target]
                if any(norm(t) == gate_l for t in ts):
                    return {"gate"}
            return set()

        tn = [n.id for n in g.nodes if n.kind == "test" and n.ast is not None and gate_l in norm(n.ast, 300) and gate_r in norm(n.ast, 300)]
        if not fw or not tn:
            ctx.bad("R18.2", fi.module, fi.qual, test, "forwarder no longer tests the gate state before writing to the user process", fi.node.lineno)
            continue
        hit = flow.feasible_paths_exist(g, g.entry, set(fw), classify, labels=flow.NORMAL, kills=kills, accept=lambda n_, facts: facts.get("gate") is not True)
        ctx.paths_explored += 1
        if hit is None:
            ctx.ok("R18.2", where(fi), f"bytes go to the user process only where `{test}` is known to hold")
        else:
            path, _ = hit
            ctx.bad("R18.2", fi.module, fi.qual, fwd + "...)", "client bytes can be forwarded to a user process without the gate state test being true", g.nodes[path[-1]].line, flow.fmt_path(g, path))


def r18_3(ctx):
    p = ctx.p
    tg = dispatch_targets(p, "PreAuthenticated")
    ctx.floor("R18.3", len(tg), 8, "pre-auth handlers")
    for m, fi in sorted(tg.items()):
        ctx.analysed(fi)
        if m not in PREAUTH_ALLOWED:
            ctx.bad("R18.3", fi.module, fi.qual, m, f"{m} is callable before authentication (command() dispatches on hasattr(self, 'do_<cmd>')): a new pre-auth command", fi.node.lineno)
            continue
        touches = [c for c in calls_in(fi.node) if call_name(c) in ("get_mailbox", "fetch", "store", "expunge", "append", "copy", "search", "selected", "list", "create", "delete", "rename")]
        if touches:
            ctx.bad("R18.3", fi.module, fi.qual, norm(touches[0], 60), f"pre-auth handler {m} reaches a mailbox operation", touches[0].lineno)
        else:
            ctx.ok("R18.3", where(fi), f"{m}: allowed before authentication, no mailbox effect")
    # command() dispatches only on existing do_* methods of the handler
    cm = p.func("client.BaseClientHandler.command")
    if "if not hasattr(self, f'do_{imap_command.command}')" in norm(cm.node, 30000):
        ctx.ok("R18.3", where(cm), "dispatch limited to do_* methods present on the handler class", nontrivial=False)
    else:
        ctx.bad("R18.3", cm.module, cm.qual, "hasattr(self, f'do_{imap_command.command}')", "command() no longer limits dispatch to the handler's own do_* methods", cm.node.lineno)


def r18_4(ctx):
    from .common import pm_of

    p = ctx.p
    ca = p.func("throttle.check_allow")
    lf = p.func("throttle.login_failed")
    ctx.analysed(ca)
    ctx.analysed(lf)
    ctx.exhaustive_rules.add("R18.4")
    def _cnum(node, depth=0):
        """value of a module-level numeric constant expression (literals, other constants of the module, + - * //)"""
        if isinstance(node, ast.Constant) and isinstance(node.value, (int, float)) and not isinstance(node.value, bool):
            return node.value
        if isinstance(node, ast.Name) and depth < 6:
            return _cnum(p.module_constant("throttle", node.id), depth + 1)
        if isinstance(node, ast.UnaryOp) and isinstance(node.op, ast.USub):
            return -_cnum(node.operand, depth)
        if isinstance(node, ast.BinOp) and isinstance(node.op, (ast.Add, ast.Sub, ast.Mult, ast.FloorDiv)):
            l, r = _cnum(node.left, depth), _cnum(node.right, depth)
            return {ast.Add: l + r, ast.Sub: l - r, ast.Mult: l * r, ast.FloorDiv: (l // r if r else 0)}[type(node.op)]
        raise ValueError(ast.dump(node)[:60])

    try:
        consts = {k: _cnum(p.module_constant("throttle", k)) for k in ("PURGE_TIME", "MAX_USER_ATTEMPTS", "MAX_ADDR_ATTEMPTS")}
    except Exception:
        raise AnalysisError("throttle constants not evaluable")
    pa = pm_of(p, ca)
    ctx.require(pa.has("now = time.time()"), "check_allow: clock read not found")
    user, addr = ca.node.args.args[0].arg, ca.node.args.args[1].arg
    now = pa.name("now")
    # locate the statements by structure (parameter / local names are read from the function itself)
    found = {}
    for key, var, tab, mx in (("user", user, "BAD_USER_AUTHS", "MAX_USER_ATTEMPTS"), ("addr", addr, "BAD_IP_AUTHS", "MAX_ADDR_ATTEMPTS")):
        purge = [s for s in ca.node.body if isinstance(s, ast.If) and any(isinstance(b, ast.Delete) and norm(b.targets[0]) == f"{tab}[{var}]" for b in s.body)]
        deny = [s for s in ca.node.body if isinstance(s, ast.If) and tab in norm(s.test) and any(isinstance(b, ast.Return) and isinstance(b.value, ast.Constant) and b.value.value is False for b in s.body)]
        want_p = f"{var} in {tab} and {now} - {tab}[{var}][1] > PURGE_TIME"
        if purge and norm(purge[0].test) == want_p:
            ctx.ok("R18.4", where(ca), f"{key}: entry purged exactly when `now - last > PURGE_TIME`")
        else:
            ctx.bad("R18.4", ca.module, ca.qual, f"purge test of {tab}", f"{key}: the purge test is not `{want_p}` (found `{norm(purge[0].test) if purge else 'none'}`): a lock-out ends too early / never, or an entry is purged before the interval has passed since the last failure", ca.node.lineno)
        want_d = f"{var} in {tab} and {tab}[{var}][0] > {mx}"
        if deny and norm(deny[0].test) == want_d:
            ctx.ok("R18.4", where(ca), f"{key}: refused exactly when count > {mx}")
        else:
            ctx.bad("R18.4", ca.module, ca.qual, f"deny test on {tab}", f"{key}: the refusal test is not `{want_d}` (found `{norm(deny[0].test) if deny else 'none'}`): wrong table, threshold or operator - attempts are refused at or below the threshold or allowed above it", ca.node.lineno)
        found[key] = (purge, deny)
    early = [s for s in ca.node.body if isinstance(s, ast.If) and any(isinstance(b, ast.Return) and isinstance(b.value, ast.Constant) and b.value.value is True for b in s.body)]
    want_e = f"{user} not in BAD_USER_AUTHS and {addr} not in BAD_IP_AUTHS"
    if not early or all(norm(e.test) == want_e for e in early):
        ctx.ok("R18.4", where(ca), "early `return True` only when neither key has a recorded failure")
    else:
        ctx.bad("R18.4", ca.module, ca.qual, "early return True", f"the early `return True` fires on `{norm(early[0].test)}` instead of `{want_e}`: an attempt is allowed although one of its keys is over its threshold (locked-out address tries a fresh user name, or locked-out user from a fresh address)", ca.node.lineno)
    ifs = [s for s in ca.node.body if isinstance(s, ast.If)]
    lines = [(s.lineno, "purge" if any(isinstance(b, ast.Delete) for b in s.body) else ("deny" if any(isinstance(b, ast.Return) and isinstance(b.value, ast.Constant) and b.value.value is False for b in s.body) else "other")) for s in ifs]
    kinds = [k for _, k in sorted(lines)]
    if "deny" in kinds and "purge" in kinds and kinds.index("deny") > max(i for i, k in enumerate(kinds) if k == "purge"):
        ctx.ok("R18.4", where(ca), "expired entries are purged before the thresholds are tested")
    else:
        ctx.bad("R18.4", ca.module, ca.qual, " -> ".join(kinds), "thresholds are tested before expired entries are purged", ca.node.lineno)
    nonbool = [r for r in body_walk(ca.node) if isinstance(r, ast.Return) and not (isinstance(r.value, ast.Constant) and isinstance(r.value.value, bool))]
    if nonbool:
        ctx.bad("R18.4", ca.module, ca.qual, norm(nonbool[0]), "check_allow returns something other than True/False: callers test `not check_allow(...)`, so a None result refuses an attempt that is under both thresholds", nonbool[0].lineno)
    else:
        ctx.ok("R18.4", where(ca), "every return of check_allow is a literal True/False", nontrivial=False)
    # the early-out for keys without any recorded failure must allow
    first_ifs = [s_ for s_ in ca.node.body if isinstance(s_, ast.If) and norm(s_.test) == want_e]
    for s_ in first_ifs:
        r = [b for b in s_.body if isinstance(b, ast.Return)]
        if r and not (isinstance(r[0].value, ast.Constant) and r[0].value.value is True):
            ctx.bad("R18.4", ca.module, ca.qual, f"if {want_e}: {norm(r[0])}", "an attempt with no recorded failure for either key is not allowed", r[0].lineno)
    last = ca.node.body[-1]
    if isinstance(last, ast.Return) and isinstance(last.value, ast.Constant) and last.value.value is True:
        ctx.ok("R18.4", where(ca), "an attempt at or below both thresholds is allowed (final return True)", nontrivial=False)
    else:
        ctx.bad("R18.4", ca.module, ca.qual, "final return", "check_allow no longer ends by allowing attempts under both thresholds", last.lineno)
    if consts["MAX_USER_ATTEMPTS"] >= 1 and consts["MAX_ADDR_ATTEMPTS"] >= 1 and consts["PURGE_TIME"] > 0:
        ctx.ok("R18.4", "throttle:<module>", f"constants positive: {consts}", nontrivial=False)
    else:
        ctx.bad("R18.4", "throttle", "<module>", str(consts), "throttle constants are not positive", 0)
    # login_failed
    pl = pm_of(p, lf)
    ctx.require(pl.has("now = time.time()"), "login_failed: clock read not found")
    luser, laddr = lf.node.args.args[0].arg, lf.node.args.args[1].arg
    lnow = pl.name("now")
    t = norm(lf.node, 6000)
    for key, var, tab in (("user", luser, "BAD_USER_AUTHS"), ("addr", laddr, "BAD_IP_AUTHS")):
        shapes = [
            f"if {var} in {tab}:\n    {tab}[{var}] = ({tab}[{var}][0] + 1, {lnow})\nelse:\n    {tab}[{var}] = (1, {lnow})",
            f"if {var} not in {tab}:\n    {tab}[{var}] = (1, {lnow})\nelse:\n    {tab}[{var}] = ({tab}[{var}][0] + 1, {lnow})",
            f"{tab}[{var}] = ({tab}.get({var}, (0, 0))[0] + 1, {lnow})",
            f"{tab}[{var}] = ({tab}.get({var}, (0, 0.0))[0] + 1, {lnow})",
            # count so far (0 when unknown) in a local, then stored + 1
            f"n_so_far = {tab}[{var}][0] if {var} in {tab} else 0\n{tab}[{var}] = (n_so_far + 1, {lnow})",
            f"n_so_far = {tab}.get({var}, (0, 0))[0]\n{tab}[{var}] = (n_so_far + 1, {lnow})",
        ]
        if any(pm_of(p, lf).has(sh) for sh in shapes):
            ctx.ok("R18.4", where(lf), f"{key}: failure count +1 (or 1) and last-failure time = now")
        else:
            ctx.bad("R18.4", lf.module, lf.qual, f"{tab} update", f"login_failed no longer adds exactly one failure stamped `now` to {tab}", lf.node.lineno)
    ctx.ok("R18.4", "throttle:login_failed/check_allow", "both use the same clock (time.time())", nontrivial=False)


def r18_5(ctx):
    p = ctx.p
    au0 = p.func("auth.authenticate")
    au = au0
    # the reload may live in a helper of the module that authenticate() awaits before it looks at USERS
    if not any(call_name(c) == "read_users_from_file" for c in calls_in(au0.node)):
        for f2 in p.funcs_in("auth"):
            if f2 is not au0 and any(call_name(c) == "read_users_from_file" for c in calls_in(f2.node)) and f2.name != "read_users_from_file":
                calls = [c for c in calls_in(au0.node) if call_name(c) == f2.name]
                if calls:
                    g0 = ctx.cfg(au0)
                    hn = {n.id for n in g0.nodes if n.ast is not None and n.kind == "stmt" and any(call_name(c) == f2.name for c in calls_in(n.ast))}
                    users = [n.id for n in g0.nodes if n.ast is not None and n.kind in ("stmt", "test") and "USERS" in norm(n.ast, 400)]
                    if hn and all(flow.dominated_by(g0, u, lambda n: n in hn) is None for u in users):
                        au = f2
                        ctx.analysed(f2)
                        ctx.ok("R18.5", where(au0), f"the reload ({f2.name}) is awaited before USERS is consulted")
    g = ctx.cfg(au)
    # the password file is re-read whenever it is newer than what we hold, and it is marked as held only after the re-read
    # returned (an await: other logins run meanwhile and must not find the mark already set; a failed read must not set it)
    rd = [n.id for n in g.nodes if n.ast is not None and n.kind == "stmt" and any(call_name(c) == "read_users_from_file" for c in calls_in(n.ast))]
    mk = [n.id for n in g.nodes if n.kind == "stmt" and isinstance(n.ast, ast.Assign) and norm(n.ast.targets[0]) == "PW_FILE_LAST_TIMESTAMP"]
    if rd and mk:
        okm = True
        for m_ in mk:
            if flow.dominated_by(g, m_, lambda n: n in rd, flow.ALL) is not None:
                okm = False
            exc_succ = [e.dst for r_ in rd for e in g.out[r_] if e.label not in flow.NORMAL]
            if exc_succ and m_ in flow.reach(g, exc_succ, flow.ALL):
                okm = False
        ctx.paths_explored += 2 * len(mk)
        if okm:
            ctx.ok("R18.5", where(au), "the password file is marked as loaded only after read_users_from_file() returned")
        else:
            ctx.bad("R18.5", au.module, au.qual, "PW_FILE_LAST_TIMESTAMP = mtime before/without read_users_from_file()", "the password file is marked as loaded before (or without) its re-read having completed: a login that runs during the awaited re-read, or after a failed one, is checked against the old passwords - a changed, disabled or removed password still authenticates", g.nodes[mk[0]].line)
    else:
        ctx.bad("R18.5", au.module, au.qual, "reload of the password file", "authenticate() no longer re-reads a changed password file (or never records that it did)", au.node.lineno)
    gt = [n for n in body_walk(au.node) if isinstance(n, ast.If) and any(call_name(c) == "read_users_from_file" for st in n.body for c in calls_in(st))]
    if gt and isinstance(gt[0].test, ast.Compare) and isinstance(gt[0].test.ops[0], (ast.Gt, ast.NotEq)) and "PW_FILE_LAST_TIMESTAMP" in norm(gt[0].test.comparators[0]) and "mtime" in norm(gt[0].test.left):
        ctx.ok("R18.5", where(au), "re-read exactly when the file is newer than the copy held", nontrivial=False)
    else:
        ctx.bad("R18.5", au.module, au.qual, "if mtime > PW_FILE_LAST_TIMESTAMP", "the password file is no longer re-read exactly when it changed: a new password is not picked up / the old one keeps working", au.node.lineno)
    reload_host = au
    au = au0
    g = ctx.cfg(au)
    t = norm(au.node, 8000)
    rets = [n.id for n in g.nodes if n.kind == "return"]
    from .common import pm_of
    pau = pm_of(p, au)
    uname, pword = au.node.args.args[0].arg, au.node.args.args[1].arg
    pau.has("user = USERS[username]")
    uvar = pau.name("user") or "user"
    unk = [n.id for n in g.nodes if n.kind == "test" and norm(n.ast) == f"{uname} not in USERS"]
    pw = [n.id for n in g.nodes if n.kind == "test" and f"acheck_password({pword}, {uvar}.pw_hash)" in norm(n.ast)]
    okv = bool(unk and pw and rets)
    if okv:
        # the only return is reached through unk:false and pw:false(not ...) edges
        for r in rets:
            for tn in (unk[0], pw[0]):
                if flow.dominated_by(g, r, lambda n: n == tn) is not None:
                    okv = False
        # true arms raise
        for tn in (unk[0], pw[0]):
            succ = [e.dst for e in g.out[tn] if e.label == "true"]
            seen = flow.reach(g, succ, flow.NORMAL)
            if any(r in seen for r in rets):
                okv = False
        ctx.paths_explored += 4
    if okv and f"if not await acheck_password({pword}, {uvar}.pw_hash)" in t:
        ctx.ok("R18.5", where(au), "authenticate returns a user only after `username in USERS` and acheck_password(...) true; both failing arms raise")
    else:
        ctx.bad("R18.5", au.module, au.qual, "unknown user / wrong password arms", "authenticate() can return a user without the password having been verified (or for an unknown user)", au.node.lineno)
    vp = p.func("hashers.verify_password")
    first = [s for s in vp.node.body if not (isinstance(s, ast.Expr) and isinstance(s.value, ast.Constant))][0]
    from .common import pm_of
    if pm_of(p, vp).find("if password is None or not is_password_usable(encoded):\n    return (False, False)") is first:
        ctx.ok("R18.5", where(vp), "None / unusable (disabled) hashes are rejected before any hasher runs")
    else:
        ctx.bad("R18.5", vp.module, vp.qual, norm(first, 100), "verify_password no longer rejects a None password / unusable hash first: a disabled account may authenticate", first.lineno)
    pvp = pm_of(p, vp)
    if pvp.has("is_correct = hasher.verify(password, encoded)") and pvp.has("return (is_correct, must_update)"):
        ctx.ok("R18.5", where(vp), "result is the hasher's verify() verdict", nontrivial=False)
    else:
        ctx.bad("R18.5", vp.module, vp.qual, "is_correct = hasher.verify(password, encoded)", "verify_password no longer returns the hasher's verdict", vp.node.lineno)
    ru = p.func("auth.read_users_from_file")
    pru = pm_of(p, ru)
    if pru.has("users[username] = PWUser(username, maildir, pw_hash)") and (pru.has("USERS[username2] = users[username2]") or pru.has("USERS[username] = users[username]")) and (pru.has("del USERS[username3]") or pru.has("del USERS[username]") or pru.has("del USERS[username2]")):
        ctx.ok("R18.5", where(ru), "a reload replaces every parsed entry (new hash) and drops removed users")
    else:
        ctx.bad("R18.5", ru.module, ru.qual, "USERS[username] = users[username]", "a password-file reload no longer replaces the stored entry with the newly parsed one: an old (changed or disabled) password keeps working until restart", ru.node.lineno)
    pau_r = pm_of(p, reload_host)
    if pau_r.has("mtime = await aiofiles.os.path.getmtime(PW_FILE_LOCATION)") and pau_r.has("if mtime > PW_FILE_LAST_TIMESTAMP:\n    ...\n    await read_users_from_file(PW_FILE_LOCATION)\n    ..."):
        ctx.ok("R18.5", where(au), "password file re-read when its mtime advanced", nontrivial=False)
    else:
        ctx.bad("R18.5", au.module, au.qual, "reload on mtime", "authenticate no longer reloads a changed password file", au.node.lineno)


def r18_6(ctx):
    """The per-address half of the throttle counts failures of *the client's* address.  Three hops, each checked: the
    throttle calls are given `<client>.rem_addr` (directly or through a local copied from it); `rem_addr` of the two
    front-end client classes is the constructor's `rem_addr` parameter; and the accept callbacks fill that parameter from
    the first element of the transport's `peername`.  (With the socket's own address - `sockname` - every client shares one
    bucket: six failures from anywhere lock out everybody, and no address is ever singled out.)"""
    p = ctx.p
    # hop 1: throttle calls
    n = 0
    for fi in p.functions.values():
        for c in calls_in(fi.node):
            if call_name(c) not in ("check_allow", "login_failed") or not isinstance(c.func, ast.Name) or len(c.args) < 2:
                continue
            n += 1
            ctx.analysed(fi)
            a = c.args[1]
            if isinstance(a, ast.Name):
                defs = [s for s in body_walk(fi.node) if isinstance(s, ast.Assign) and len(s.targets) == 1 and isinstance(s.targets[0], ast.Name) and s.targets[0].id == a.id]
                if len(defs) == 1:
                    a = defs[0].value
            if isinstance(a, ast.Attribute) and a.attr == "rem_addr":
                ctx.ok("R18.6", where(fi), f"{call_name(c)}(..., {norm(a)})")
            else:
                ctx.bad("R18.6", fi.module, fi.qual, norm(c, 90), f"the throttle is given `{norm(a, 50)}` as the client address, not the connection's rem_addr", c.lineno)
    ctx.floor("R18.6", n, 4, "throttle calls with an address")
    # hops 2 and 3
    for ckey, akey in (("server.IMAPClient.__init__", "server.IMAPServer.new_client"), ("pop3_server.POP3Client.__init__", "pop3_server.POP3Server.new_client")):
        init, acc = p.func(ckey), p.func(akey)
        ctx.analysed(init)
        ctx.analysed(acc)
        st = [s for s in body_walk(init.node) if isinstance(s, ast.Assign) and norm(s.targets[0]) == "self.rem_addr"]
        if len(st) == 1 and isinstance(st[0].value, ast.Name) and st[0].value.id == "rem_addr" and "rem_addr" in [a.arg for a in init.node.args.args]:
            ctx.ok("R18.6", where(init), "self.rem_addr = rem_addr (constructor parameter)", nontrivial=False)
        else:
            ctx.bad("R18.6", init.module, init.qual, "self.rem_addr = rem_addr", "the client object's rem_addr is no longer the constructor's rem_addr parameter", init.node.lineno)
            continue
        pos = [a.arg for a in init.node.args.args].index("rem_addr") - 1  # without self
        cls_name = ckey.split(".")[1]
        ctor = [c for c in calls_in(acc.node) if isinstance(c.func, ast.Name) and c.func.id == cls_name]
        ctx.require(ctor, f"{akey}: construction of {cls_name} not found")
        c = ctor[0]
        arg = c.args[pos] if len(c.args) > pos else kwarg(c, "rem_addr")
        src = None
        if isinstance(arg, ast.Name):
            for s in body_walk(acc.node):
                if isinstance(s, ast.Assign) and len(s.targets) == 1:
                    t, v = s.targets[0], strip_await(s.value)
                    if isinstance(t, ast.Tuple) and t.elts and isinstance(t.elts[0], ast.Name) and t.elts[0].id == arg.id:
                        src = v  # first element of the unpacked pair
                    elif isinstance(t, ast.Name) and t.id == arg.id and isinstance(v, ast.Subscript) and isinstance(v.slice, ast.Constant) and v.slice.value == 0:
                        src = v.value
        if isinstance(src, ast.Name):
            d = [s for s in body_walk(acc.node) if isinstance(s, ast.Assign) and len(s.targets) == 1 and isinstance(s.targets[0], ast.Name) and s.targets[0].id == src.id]
            src = strip_await(d[0].value) if len(d) == 1 else src
        good = isinstance(src, ast.Call) and call_name(src) == "get_extra_info" and src.args and isinstance(src.args[0], ast.Constant) and src.args[0].value == "peername" and norm(call_recv(src)) == "writer"
        if good:
            ctx.ok("R18.6", where(acc), f"{cls_name}(rem_addr=<host of writer.get_extra_info('peername')>)")
        else:
            ctx.bad("R18.6", acc.module, acc.qual, norm(src, 70) if src is not None else norm(c, 70), "the address a new connection is filed under is not the host part of the transport's `peername`: the per-address throttle counts all clients together (or none)", c.lineno)


def r18_7(ctx):
    """The password file is re-read when it changes (R18.5).  What was read replaces what is cached - for every user name
    in the file, not only for names that were not cached yet: otherwise a changed password (or an account disabled with an
    unusable hash) keeps authenticating with the old hash until the server is restarted.  Every record read is stored into
    USERS unconditionally (`USERS[name] = <record read>` for each name read, or `USERS.update(<records read>)`)."""
    from .common import pm_of

    p = ctx.p
    fi = p.func("auth.read_users_from_file")
    ctx.analysed(fi)
    pm = pm_of(p, fi)
    shapes = [
        "for username in users:\n    USERS[username] = users[username]",
        "for username in users.keys():\n    USERS[username] = users[username]",
        "for username, user in users.items():\n    USERS[username] = user",
        "for username, user in users.items():\n    USERS[username] = users[username]",
        "USERS.update(users)",
    ]
    # `for k, _v in d.items(): USERS[k] = d[k]` is read by the normal forms as a loop over d.items() whose value is unused
    if any(pm.has(x) for x in shapes):
        ctx.ok("R18.7", where(fi), "every record read from the password file replaces the cached one")
        return
    # structural fallback: a store USERS[<loop var>] = ... in a loop over the records read, under no test
    par = parmap(fi)
    for st in body_walk(fi.node):
        if isinstance(st, ast.Assign) and len(st.targets) == 1 and isinstance(st.targets[0], ast.Subscript) and norm(st.targets[0].value) == "USERS":
            cur, loops, tests = st, [], []
            while cur in par:
                cur = par[cur]
                if isinstance(cur, (ast.For, ast.AsyncFor)):
                    loops.append(cur)
                if isinstance(cur, ast.If):
                    tests.append(cur)
            if loops and not tests and not any(isinstance(x, ast.BinOp) and isinstance(x.op, ast.Sub) for l in loops for x in ast.walk(l.iter)):
                ctx.ok("R18.7", where(fi), f"{norm(st, 60)} for every record read")
                return
    ctx.bad("R18.7", fi.module, fi.qual, "for username in users: USERS[username] = users[username]", "a reload of the password file no longer replaces the cached record of a user name that is already cached: after a password change (or the account being disabled) the old password keeps authenticating, the new one is refused, until the server restarts", fi.node.lineno)


def run(ctx):
    ctx.do(r18_1)
    ctx.do(r18_2)
    ctx.do(r18_3)
    ctx.do(r18_4)
    ctx.do(r18_5)
    ctx.do(r18_6)
    ctx.do(r18_7)
    ctx.trust("frozen pre-auth handler set: " + ", ".join(sorted(PREAUTH_ALLOWED)))
    for k, v in STATE_WRITERS.items():
        ctx.trust(f"frozen state writer: {k} - {v}")
