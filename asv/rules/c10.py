"""C10 - concurrent sessions behave like some sequential order and never deadlock.

 R10.1 queue discipline: admitted mailbox operations are called only under an admission on that mailbox
 R10.2 admission relation: exhaustive, any-shaped, and covering the required conflict table
 R10.3 the message set is (re)resolved after the last suspension before the command is released
 R10.4 unit kinds at the operation boundary (UID lists vs sequence-number lists)
 R10.5 lock order acyclic; source released before the destination is requested; queue consumers
 R10.7 emptiness tests of executing_tasks are preceded by a clean-up
"""
from __future__ import annotations

import ast
import itertools

from .. import flow
from ..astutil import atom_polarity, body_walk, call_name, call_recv, calls_in, kwarg, names_in, norm, strip_await, walk_no_nested
from ..loader import AnalysisError
from .common import admission_items, env_of, in_admission, parmap, typer, where

PROP = "C10"
EXPLANATION = (
    "(R10.1) every call, from outside class Mailbox, of an admitted mailbox operation (append, expunge, store, fetch, "
    "search, copy, selected, Mailbox.delete, Mailbox.rename) lies inside `async with <cmd>.ready_and_okay(<mailbox>)`; "
    "(R10.2a) every command kind that can be enqueued (one per handler admission site plus the phony APPEND/EXPUNGE) has an "
    "explicit arm in would_conflict; (R10.2b) inside each loop over executing_tasks the only early return is `return True`; "
    "(R10.2c) the admission relation is extracted by abstract evaluation of would_conflict over the finite domain "
    "{incoming kind} x {executing kind} x {peek flags} x {sets intersect} x {Deleted empty} and must contain every pair "
    "of a frozen read/write conflict table derived from RFC semantics, in both arrival orders; (R10.3) in management_task "
    "no await lies between the last store to imap_cmd.msg_set_as_set and ready.set(); (R10.4) arguments handed to "
    "expunge(uid_msg_set=...) are UID-kinded and those handed to fetch/store are sequence-number-kinded; (R10.5a) the "
    "lock-order graph over the asyncio locks, built from nested `async with` regions through calls, is acyclic apart from "
    "instance-disjoint edges; (R10.5b) a command admitted on mailbox A calls copy() with imap_cmd=<itself> and copy() sets "
    "completed=True on it before requesting the destination admission; (R10.5c) task_queue.get* is called only by "
    "management_task and shutdown; (R10.7) in management_task every emptiness test of executing_tasks is preceded by "
    "_cleanup_executing_tasks() since the loop head. Decides these clauses, not linearizability or liveness."
    ' (R10.2d) an admission region around expunge(check_deleted=False) must use a command kind for which the abstractly evaluated would_conflict is True against every executing kind even with an empty Deleted sequence.'
)
RULE_TEXT = (
    "instances: each operation call site; each enqueued command kind; each loop return; each cell of the extracted "
    "relation (exhaustive over the finite domain); each path dequeue->ready.set(); each lock-order edge; non-trivial = "
    "needed abstract evaluation, CFG query or call-graph propagation"
)
ASSUMPTIONS = [
    "frozen read/write table: STORE writes flags of its set; non-PEEK FETCH writes flags of its set; SEARCH reads all flags; COPY reads its set; APPEND/EXPUNGE/CLOSE(with \\Deleted)/MOVE/DELETE/RENAME/CHECK exclusive",
    "not decided: linearizability of responses/final state; liveness of the 10 ms polling admission loop",
]
LEVEL_TEXT = (
    "Static who-may-call-in-what-context, exhaustive abstract evaluation of the admission relation against a required "
    "conflict table, CFG ordering in the management task, unit kinds at the operation boundary and lock-order "
    "acyclicity. The relation check is exhaustive over its finite abstract domain; interleavings are not enumerated."
)
LEVEL_NOTE = "Structural clauses only. Trusted: CPython ast; the frozen conflict table; the mini-evaluator understands only the constructs would_conflict uses (fails closed)."
TECHNIQUE = "context-sensitive who-may-call + abstract evaluation of the admission relation + lock-order graph"
DESIGN_REF = "DESIGN.md section 3 / C10"

ADMITTED_OPS = {"append", "expunge", "store", "fetch", "search", "copy", "selected"}


def r10_1(ctx):
    p = ctx.p
    t = typer(p)
    n = 0
    for fi in p.functions.values():
        if fi.module in ("mbox", "hashers"):
            continue
        env = None
        for c in calls_in(fi.node):
            nm = call_name(c)
            r = call_recv(c)
            if r is None:
                continue
            target = None
            if nm in ADMITTED_OPS:
                if env is None:
                    env = env_of(p, fi)
                if "Mailbox" in t.expr_type(r, env) and not (isinstance(r, ast.Name) and r.id == "Mailbox"):
                    target = norm(r)
            elif nm in ("delete", "rename") and isinstance(r, ast.Name) and r.id == "Mailbox":
                target = "*"
            if target is None:
                continue
            n += 1
            ctx.analysed(fi)
            adm = in_admission(c, fi)
            okv = False
            for a in adm:
                if a.args and (target == "*" or norm(a.args[0]) == target):
                    okv = True
                # local alias:  mbox = self.mbox
                elif a.args and isinstance(a.args[0], ast.Name):
                    okv = okv or target == "*"
            if okv:
                ctx.ok("R10.1", where(fi), f"{norm(c.func)}() under admission on {target if target != '*' else norm(adm[0].args[0])}")
            else:
                ctx.bad(
                    "R10.1", fi.module, fi.qual, norm(c.func) + "(...)",
                    f"{norm(c.func)}() is called outside the mailbox's admission queue (no enclosing `async with "
                    f"cmd.ready_and_okay({target})`): it can run concurrently with an admitted FETCH/STORE/EXPUNGE of another "
                    "session and shift indexes under it",
                    c.lineno,
                )
    ctx.floor("R10.1", n, 10, "admitted-operation call sites outside mbox.py")


# ----------------------------------------------------------------------------
# abstract evaluation of would_conflict


class _Unknown(Exception):
    pass


class _Ret(Exception):
    def __init__(self, v):
        self.v = v


def _eval_conflict(fn: ast.FunctionDef, conflicting: set[str], incoming: dict, executing: list[dict], deleted_nonempty: bool, intersects: bool):
    """Interpret would_conflict for abstract commands.  Command = {'command': 'FETCH', 'fetch_peek': bool}."""
    self_name = fn.args.args[0].arg
    cmd_param = fn.args.args[1].arg

    def ev(e, env):
        if isinstance(e, ast.Constant):
            return e.value
        if isinstance(e, ast.Name):
            if e.id in env:
                return env[e.id]
            if e.id == "CONFLICTING_COMMANDS":
                return conflicting
            raise _Unknown(f"name {e.id}")
        if isinstance(e, ast.Attribute):
            if isinstance(e.value, ast.Name) and e.value.id == "IMAPCommand":
                return e.attr
            if norm(e) == f"{self_name}.executing_tasks":
                return executing
            b = ev(e.value, env)
            if isinstance(b, dict) and e.attr in b:
                return b[e.attr]
            raise _Unknown(f"attribute {norm(e)}")
        if isinstance(e, ast.UnaryOp) and isinstance(e.op, ast.Not):
            return not ev(e.operand, env)
        if isinstance(e, ast.BoolOp):
            if isinstance(e.op, ast.And):
                v = True
                for x in e.values:
                    v = ev(x, env)
                    if not v:
                        return v
                return v
            v = False
            for x in e.values:
                v = ev(x, env)
                if v:
                    return v
            return v
        if isinstance(e, ast.Compare) and len(e.ops) == 1:
            l, r = ev(e.left, env), ev(e.comparators[0], env)
            op = e.ops[0]
            if isinstance(op, ast.Eq):
                return l == r
            if isinstance(op, ast.NotEq):
                return l != r
            if isinstance(op, ast.In):
                return l in r
            if isinstance(op, ast.NotIn):
                return l not in r
            if isinstance(op, ast.Gt):
                return l > r
            raise _Unknown("compare op")
        if isinstance(e, ast.Call):
            f = e.func
            if isinstance(f, ast.Name) and f.id == "intersect":
                return intersects
            if isinstance(f, ast.Name) and f.id in ("any", "all") and isinstance(e.args[0], ast.GeneratorExp):
                ge = e.args[0]
                gen = ge.generators[0]
                seq = ev(gen.iter, env)
                vals = []
                for item in seq:
                    env2 = dict(env)
                    env2[gen.target.id] = item
                    if all(ev(c, env2) for c in gen.ifs):
                        vals.append(ev(ge.elt, env2))
                return any(vals) if f.id == "any" else all(vals)
            if isinstance(f, ast.Name) and f.id == "len":
                return len(ev(e.args[0], env))
            if isinstance(f, ast.Attribute) and f.attr == "get" and norm(f.value) == f"{self_name}.sequences":
                k = ev(e.args[0], env)
                if k == "Deleted":
                    return {1} if deleted_nonempty else set()
                raise _Unknown("sequences.get of " + str(k))
            if isinstance(f, ast.Attribute) and f.attr == "qstr":
                return "cmd"
            raise _Unknown(f"call {norm(e.func)}")
        if isinstance(e, ast.Subscript) and norm(e.value) == f"{self_name}.sequences":
            k = ev(e.slice, env)
            if k == "Deleted":
                return {1} if deleted_nonempty else set()
            raise _Unknown("sequences[...]")
        if isinstance(e, (ast.List, ast.Tuple)):
            return [ev(x, env) for x in e.elts]
        if isinstance(e, ast.JoinedStr):
            return "text"
        raise _Unknown(f"expression {type(e).__name__}")

    def match_pat(pt, val):
        if isinstance(pt, ast.MatchOr):
            return any(match_pat(x, val) for x in pt.patterns)
        if isinstance(pt, ast.MatchValue):
            return ev(pt.value, {}) == val
        if isinstance(pt, ast.MatchAs) and pt.pattern is None:
            return True
        raise _Unknown("pattern")

    class _Raise(Exception):
        pass

    def run(stmts, env):
        for s in stmts:
            if isinstance(s, ast.Expr):
                continue  # docstring / logging
            if isinstance(s, ast.Return):
                raise _Ret(ev(s.value, env) if s.value is not None else None)
            if isinstance(s, ast.If):
                run(s.body if ev(s.test, env) else s.orelse, env)
            elif isinstance(s, ast.Match):
                v = ev(s.subject, env)
                for c in s.cases:
                    if match_pat(c.pattern, v) and (c.guard is None or ev(c.guard, env)):
                        run(c.body, env)
                        break
            elif isinstance(s, ast.For):
                for item in ev(s.iter, env):
                    env[s.target.id] = item
                    run(s.body, env)
                run(s.orelse, env)
            elif isinstance(s, ast.Raise):
                raise _Raise()
            elif isinstance(s, ast.Assign) and len(s.targets) == 1 and isinstance(s.targets[0], ast.Name):
                env[s.targets[0].id] = ev(s.value, env)
            elif isinstance(s, ast.Pass):
                continue
            else:
                raise _Unknown(f"statement {type(s).__name__}")

    try:
        run(fn.body, {cmd_param: incoming})
    except _Ret as r:
        return bool(r.v)
    except _Raise:
        return "RAISE"
    return None


KINDS = ["APPEND", "CHECK", "CLOSE", "COPY", "DELETE", "EXAMINE", "EXPUNGE", "FETCH", "MOVE", "NOOP", "RENAME", "SEARCH", "SELECT", "STATUS", "STORE"]
EXCLUSIVE_ALWAYS = {"APPEND", "CHECK", "DELETE", "MOVE", "RENAME"}
EXCLUSIVE_IF_DELETED = {"CLOSE", "EXPUNGE"}


def required_conflict(inc, exe, inc_peek, exe_peek, inter, deleted):
    """Frozen table (from RFC 3501/6851 semantics): must `inc` wait for `exe`?  None = not required either way."""
    if exe in EXCLUSIVE_ALWAYS or exe in EXCLUSIVE_IF_DELETED:
        return "executing command is exclusive"
    if inc in EXCLUSIVE_ALWAYS:
        return "incoming command must run alone"
    if inc in EXCLUSIVE_IF_DELETED and deleted:
        return "incoming EXPUNGE/CLOSE with \\Deleted messages must run alone"
    if inc in EXCLUSIVE_IF_DELETED and exe == "STORE":
        # `\Deleted` is judged when the EXPUNGE is admitted; a STORE admitted just before it has not set its flags yet
        return "a running STORE may be about to flag messages \\Deleted: the EXPUNGE/CLOSE would then remove messages beside the other running commands"
    pair = {inc, exe}
    if "STORE" in pair:
        other = (pair - {"STORE"}).pop() if len(pair) == 2 else "STORE"
        if other == "SEARCH":
            return "STORE writes flags, SEARCH reads all flags"
        if other in ("STORE", "FETCH", "COPY") and inter:
            return "STORE writes flags of messages the other command reads/writes"
    inc_w = inc == "FETCH" and not inc_peek
    exe_w = exe == "FETCH" and not exe_peek
    if (inc_w and exe == "SEARCH") or (exe_w and inc == "SEARCH"):
        return "non-PEEK FETCH writes flags, SEARCH reads all flags"
    if inc_w and exe in ("FETCH", "COPY") and inter:
        return "non-PEEK FETCH writes flags of messages the other command reads"
    if exe_w and inc == "COPY" and inter:
        return "non-PEEK FETCH writes flags of messages COPY reads"
    return None


def r10_2(ctx):
    p = ctx.p
    wc = p.func("mbox.Mailbox.would_conflict")
    ctx.analysed(wc)
    cmds = {}
    ci = p.classes_by_mod.get("parse.IMAPCommand")
    ctx.require(ci, "IMAPCommand enum vanished", anchor=True)
    for s in ci.node.body:
        if isinstance(s, ast.Assign) and isinstance(s.value, ast.Constant):
            cmds[s.value.value] = s.targets[0].id
    cc = p.module_constant("parse", "CONFLICTING_COMMANDS")
    try:
        conflicting = {e.attr for e in cc.elts}
    except Exception:
        raise AnalysisError("anchor not evaluable: parse.CONFLICTING_COMMANDS")
    # (a) exhaustive: enqueued kinds all have explicit arms
    arms = set()
    for n in body_walk(wc.node):
        if isinstance(n, ast.Match) and "command" in norm(n.subject) and norm(n.subject).startswith(wc.node.args.args[1].arg):
            for c in n.cases:
                pats = c.pattern.patterns if isinstance(c.pattern, ast.MatchOr) else [c.pattern]
                for pt in pats:
                    if isinstance(pt, ast.MatchValue) and isinstance(pt.value, ast.Attribute):
                        arms.add(pt.value.attr)
    enq = {}
    adm_sites = []
    for fi in p.functions.values():
        for w, c in admission_items(fi):
            r = call_recv(c)
            kind = None
            if isinstance(r, ast.Name) and r.id == "cmd" and fi.name.startswith("do_"):
                kind = cmds.get(fi.name[3:])
                if fi.name == "do_select":
                    enq.setdefault("EXAMINE", []).append(fi.key)
            elif isinstance(r, ast.Name):
                # phony command: <x>.command = IMAPCommand.K assigned in the function
                for s in body_walk(fi.node):
                    if isinstance(s, ast.Assign) and norm(s.targets[0]) == f"{r.id}.command" and isinstance(s.value, ast.Attribute):
                        kind = s.value.attr
            if kind is None:
                ctx.bad("R10.2", fi.module, fi.qual, norm(c), "cannot determine the command kind enqueued here", c.lineno)
                continue
            enq.setdefault(kind, []).append(fi.key)
            adm_sites.append((fi, w, c, kind))
    ctx.floor("R10.2", len(enq), 12, "command kinds that can be enqueued")
    # (d) a region that removes messages whatever their flags (expunge(..., check_deleted=False)) must be admitted under a
    #     kind that is exclusive unconditionally: EXPUNGE/CLOSE are exclusive only while the Deleted sequence is non-empty,
    #     which is about the messages *they* remove, not about an arbitrary UID list.
    n_d = 0
    for fi, w, c, kind in adm_sites:
        forced = [x for st in w.body for x in calls_in(st) if call_name(x) == "expunge" and isinstance(kwarg(x, "check_deleted"), ast.Constant) and kwarg(x, "check_deleted").value is False]
        if not forced:
            continue
        n_d += 1
        ctx.analysed(fi)
        admitted_with = []
        try:
            for exe in KINDS:
                for exe_peek in (True, False):
                    if exe != "FETCH" and not exe_peek:
                        continue
                    got = _eval_conflict(wc.node, conflicting, {"command": kind, "fetch_peek": True}, [{"command": exe, "fetch_peek": exe_peek}], False, True)
                    if got is not True:
                        admitted_with.append(exe)
        except _Unknown as e:
            raise AnalysisError(f"would_conflict uses a construct the evaluator does not know ({e}); relation not extractable")
        if admitted_with or kind not in conflicting:
            ctx.bad(
                "R10.2", fi.module, fi.qual, f"forced expunge admitted as {kind}",
                f"`{norm(forced[0], 70)}` removes messages regardless of \\Deleted but is queued as a phony {kind}: with an empty Deleted "
                f"sequence would_conflict admits it while {sorted(set(admitted_with))[:4]} commands of other sessions are executing - "
                "messages vanish and sequence numbers shift under a running FETCH/STORE/SEARCH",
                forced[0].lineno,
            )
        else:
            ctx.ok("R10.2", where(fi), f"forced expunge runs under a phony {kind}: conflicts with every executing kind whatever the Deleted sequence holds")
    ctx.floor("R10.2d", n_d, 2, "admission regions around expunge(check_deleted=False)")
    for k, sites in sorted(enq.items()):
        if k in arms:
            ctx.ok("R10.2", where(wc), f"enqueued kind {k} ({len(sites)} site(s)) has an explicit arm")
        else:
            ctx.bad(
                "R10.2", wc.module, wc.qual, f"no arm for IMAPCommand.{k}",
                f"{k} can be enqueued ({sites[0]}) but would_conflict has no arm for it: with another command executing the "
                "`case _: raise RuntimeError` arm is hit, the management task exits and every later command on the mailbox hangs",
                wc.node.lineno,
            )
    # (b) any-shape
    n_loops = 0
    for lp in [n for n in body_walk(wc.node) if isinstance(n, ast.For) and "executing_tasks" in norm(n.iter)]:
        n_loops += 1
        rets = [r for s in lp.body for r in walk_no_nested(s) if isinstance(r, ast.Return)]
        bad = [r for r in rets if not (isinstance(r.value, ast.Constant) and r.value.value is True)]
        if bad:
            ctx.bad(
                "R10.2", wc.module, wc.qual, norm(bad[0]),
                "inside the loop over executing commands a return other than `return True` decides after looking at only "
                "the first executing command: a conflict with a later one is missed",
                bad[0].lineno,
            )
        else:
            ctx.ok("R10.2", where(wc), f"loop @{lp.lineno}: only early `return True` (a conflict with any running command suffices)")
    # `return any(<test on cmd> for cmd in self.executing_tasks)` is the same scan with the any-shape built in
    for c in calls_in(wc.node):
        if isinstance(c.func, ast.Name) and c.func.id == "any" and c.args and isinstance(c.args[0], (ast.GeneratorExp, ast.ListComp)) and "executing_tasks" in norm(c.args[0].generators[0].iter):
            n_loops += 1
            ctx.ok("R10.2", where(wc), f"any(...) over the executing commands @{c.lineno}")
    ctx.floor("R10.2b", n_loops, 5, "scans of executing_tasks in would_conflict (loops and any())")
    # (c) extracted relation vs required table
    ctx.exhaustive_rules.add("R10.2c")
    cells = 0
    missing = {}
    raised = set()
    for inc, exe in itertools.product(KINDS, KINDS):
        for inc_peek, exe_peek, inter, deleted in itertools.product([True, False], repeat=4):
            if inc != "FETCH" and not inc_peek:
                continue
            if exe != "FETCH" and not exe_peek:
                continue
            cells += 1
            try:
                got = _eval_conflict(
                    wc.node, conflicting,
                    {"command": inc, "fetch_peek": inc_peek},
                    [{"command": exe, "fetch_peek": exe_peek}],
                    deleted, inter,
                )
            except _Unknown as e:
                raise AnalysisError(f"would_conflict uses a construct the evaluator does not know ({e}); relation not extractable")
            if got == "RAISE":
                raised.add(inc)
                continue
            why = required_conflict(inc, exe, inc_peek, exe_peek, inter, deleted)
            if why and got is not True:
                key = (inc, exe, why)
                missing.setdefault(key, []).append((inc_peek, exe_peek, inter, deleted))
    ctx.paths_explored += cells
    for (inc, exe, why), cases in sorted(missing.items()):
        c0 = cases[0]
        ctx.bad(
            "R10.2", wc.module, wc.qual, f"incoming {inc} vs executing {exe}: no conflict",
            f"required conflict missing: incoming {inc} is admitted while {exe} is executing ({why}; e.g. incoming peek={c0[0]}, "
            f"executing peek={c0[1]}, sets intersect={c0[2]}, \\Deleted non-empty={c0[3]})",
            wc.node.lineno,
        )
    if not missing:
        ctx.ok("R10.2", where(wc), f"extracted relation ({cells} abstract cells) contains every required conflict of the frozen table, in both arrival orders")
    # empty executing list -> never conflicts
    for inc in KINDS:
        got = _eval_conflict(wc.node, conflicting, {"command": inc, "fetch_peek": True}, [], True, True)
        if got is not False:
            ctx.bad("R10.2", wc.module, wc.qual, f"{inc} with nothing executing -> {got}", "a command conflicts although nothing is executing (it would never be admitted)", wc.node.lineno)
    ctx.ok("R10.2", where(wc), "with no executing command every kind is admitted", nontrivial=True)


# ----------------------------------------------------------------------------
def r10_3(ctx):
    p = ctx.p
    fi = p.func("mbox.Mailbox.management_task")
    g = ctx.cfg(fi)
    stores = [n.id for n in g.nodes if n.kind == "stmt" and isinstance(n.ast, ast.Assign) and any(isinstance(t, ast.Attribute) and t.attr == "msg_set_as_set" for t in n.ast.targets)]
    ready = {n.id for n in g.nodes if n.ast is not None and n.kind == "stmt" and "ready.set()" in norm(n.ast)}
    ctx.require(stores and ready, "management_task: msg_set_as_set store / ready.set() not found")
    # a path  store -> ... await ... -> ready.set()  with no later store
    storeset = set(stores)
    bad = None
    for s in stores:
        # nodes reachable from s without passing another store
        seen = flow.reach(g, [s], flow.NORMAL, avoid=lambda n: n in storeset)
        ctx.paths_explored += len(seen)
        for m in seen:
            if m != s and g.nodes[m].awaits:
                # from the await, reach ready without another store
                seen2 = flow.reach(g, [m], flow.NORMAL, avoid=lambda n: n in storeset)
                if any(r in seen2 for r in ready):
                    bad = (s, m)
                    break
        if bad:
            break
    if bad:
        s, m = bad
        ctx.bad(
            "R10.3", fi.module, fi.qual, f"{norm(g.nodes[s].ast, 70)} ... {norm(g.nodes[m].ast, 60)} ... ready.set()",
            "the command's message set is resolved to sequence numbers, then the task suspends (waits behind running "
            "commands / resyncs) and releases the command without re-resolving on that path: after another session's "
            "EXPUNGE the stale numbers denote other messages (e.g. `UID FETCH 5` returns the data of another UID)",
            g.nodes[m].line, f"store@{g.nodes[s].line} -> await@{g.nodes[m].line} -> ready.set()",
        )
    else:
        ctx.ok("R10.3", where(fi), "no suspension between the last resolution of msg_set_as_set and ready.set()")
    # ... and it is resolved *before* the admission decision as well: would_conflict() / intersect() compare the sets of the
    # arriving and the running commands, and an unresolved set (None) intersects with nothing - STORE / FETCH / COPY on the
    # same messages would be admitted side by side.
    adm = [n.id for n in g.nodes if n.ast is not None and n.kind == "stmt" and any(call_name(c) == "command_can_proceed" for c in calls_in(n.ast))]
    ctx.require(adm, "management_task: command_can_proceed() not found")
    gets = [n.id for n in g.nodes if n.ast is not None and n.kind == "stmt" and isinstance(n.ast, ast.Assign) and any(call_name(c) in ("get", "get_nowait") and "task_queue" in norm(call_recv(c) or ast.Name("")) for c in calls_in(n.ast))]
    ctx.require(gets, "management_task: dequeue of the next command not found")
    w = None
    for q in gets:
        w = w or flow.escapes_without(g, q, lambda n: n in storeset, adm)
    ctx.paths_explored += 1
    if w:
        ctx.bad("R10.3", fi.module, fi.qual, "imap_cmd.msg_set_as_set = ... before command_can_proceed(imap_cmd)", "the arriving command reaches the admission test with its message set unresolved: would_conflict() sees no intersection with the running commands, so a STORE and a FETCH (or COPY) of the same messages run side by side - a FETCH shows the STORE half applied", g.nodes[adm[0]].line, flow.fmt_path(g, w))
    else:
        ctx.ok("R10.3", where(fi), "the command's set is resolved before the admission test compares it with the running commands")


# ----------------------------------------------------------------------------
def r10_4(ctx):
    """Unit kinds at the operation boundary."""
    p = ctx.p
    n = 0
    for fi in p.functions.values():
        for c in calls_in(fi.node):
            if call_name(c) != "expunge" or not isinstance(c.func, ast.Attribute):
                continue
            arg = kwarg(c, "uid_msg_set") or (c.args[0] if c.args else None)
            if arg is None:
                continue
            n += 1
            ctx.analysed(fi)
            kind = _kind_of(fi, arg)
            if kind == "UID":
                ctx.ok("R10.4", where(fi), f"expunge(uid_msg_set={norm(arg, 40)}) is UID-kinded")
            elif kind == "SeqNum":
                ctx.bad(
                    "R10.4", fi.module, fi.qual, f"expunge(uid_msg_set={norm(arg, 60)})",
                    "sequence numbers (msg_set_as_set) are passed where expunge() expects UIDs: `UID EXPUNGE 7` expunges the "
                    "\\Deleted message whose UID equals the *sequence number* of UID 7 - another message, or nothing",
                    c.lineno,
                )
            else:
                ctx.bad("R10.4", fi.module, fi.qual, f"expunge(uid_msg_set={norm(arg, 60)})", "cannot establish that this argument is a list of UIDs", c.lineno)
    ctx.floor("R10.4", n, 3, "expunge(uid_msg_set=...) call sites")
    # fetch/store take sequence numbers
    for m, nm in (("do_fetch", "fetch"), ("do_store", "store")):
        fi = p.func(f"client.Authenticated.{m}")
        for c in calls_in(fi.node):
            if call_name(c) == nm and "mbox" in norm(call_recv(c) or ast.Name("")):
                k = _kind_of(fi, c.args[0])
                if k == "SeqNum":
                    ctx.ok("R10.4", where(fi), f"{nm}({norm(c.args[0])}, ...) is sequence-number-kinded")
                else:
                    ctx.bad("R10.4", fi.module, fi.qual, f"{nm}({norm(c.args[0], 50)})", f"{nm}() expects sequence numbers but the argument is {k or 'of unknown kind'}", c.lineno)


def _kind_of(fi, e, depth=0):
    e = strip_await(e)
    if depth > 5:
        return None
    txt = norm(e, 300)
    if isinstance(e, ast.Name):
        kinds = set()
        for n in body_walk(fi.node):
            if isinstance(n, ast.Assign):
                for t in n.targets:
                    if isinstance(t, ast.Name) and t.id == e.id:
                        kinds.add(_kind_of(fi, n.value, depth + 1))
                    if isinstance(t, ast.Tuple):
                        for i, el in enumerate(t.elts):
                            if isinstance(el, ast.Name) and el.id == e.id:
                                v = strip_await(n.value)
                                if isinstance(v, ast.Call) and call_name(v) == "copy":
                                    kinds.add("UID")  # copy() -> (src uids, dst uids)
        kinds.discard(None)
        if len(kinds) == 1:
            return kinds.pop()
        return None
    if isinstance(e, ast.IfExp):
        a, b = _kind_of(fi, e.body, depth + 1), _kind_of(fi, e.orelse, depth + 1)
        if isinstance(e.orelse, ast.Constant) and e.orelse.value is None or isinstance(e.orelse, ast.List) and not e.orelse.elts:
            return a
        return a if a == b else None
    if isinstance(e, ast.ListComp):
        el = e.elt
        it = e.generators[0].iter
        tg = e.generators[0].target
        # [snapshot_uids[n - 1] for n in ...] / [self.mbox.uids[n-1] for n in seqs]
        if isinstance(el, ast.Subscript) and isinstance(el.value, ast.Attribute) and el.value.attr in ("uids", "snapshot_uids"):
            return "UID"
        if isinstance(el, ast.Name) and isinstance(tg, ast.Name) and el.id == tg.id:
            return _kind_of(fi, it, depth + 1)
        return None
    if isinstance(e, ast.Call):
        f = e.func
        if isinstance(f, ast.Name) and f.id in ("list", "sorted", "set") and e.args:
            return _kind_of(fi, e.args[0], depth + 1)
        if call_name(e) == "sequence_set_to_list":
            u = kwarg(e, "uid_cmd") or (e.args[2] if len(e.args) > 2 else None)
            if u is not None and not (isinstance(u, ast.Constant) and u.value is False):
                return "UID"
            return "SeqNum"
    if isinstance(e, ast.Attribute):
        if e.attr == "msg_set_as_set":
            return "SeqNum"
        if e.attr in ("uids", "snapshot_uids"):
            return "UID"
    return None


def r10_4_units(ctx, modules=("mbox", "client", "pop3_client", "search")):
    """Generic unit-kind check (UID / SeqNum / Index / Key) over the modules that handle message numbers."""
    from ..units import check_function

    p = ctx.p
    n_fn = 0
    for fi in p.functions.values():
        if fi.module not in modules:
            continue
        out, K = check_function(fi)
        kinded = {k for k, v in K.scalar.items() if v} | {k for k, v in K.elem.items() if v}
        if not kinded:
            continue
        n_fn += 1
        ctx.analysed(fi)
        for node, want, got, what in out:
            ctx.bad(
                "R10.4", fi.module, fi.qual, norm(node, 100),
                f"a {got} is used where a {want} is expected ({what}): the operation addresses another message than the one its "
                "argument denoted (the kinds coincide only while no message was ever expunged)",
                node.lineno,
            )
        if not out:
            ctx.ok("R10.4", where(fi), f"unit kinds consistent ({len(kinded)} kinded names: {', '.join(sorted(kinded)[:6])})")
    ctx.floor("R10.4u", n_fn, 15 if len(modules) >= 4 else 3, "functions with inferred message-number kinds")


# ----------------------------------------------------------------------------
# MH.lock_folder() is not in the graph: it is re-entrant within the process (`if self._locked: yield`), a no-op when
# file locking is disabled, and otherwise gives up after its 2 s timeout - it can delay but never block for ever.
LOCKS = ("mh_sequences_lock", "db_lock", "active_mailboxes_lock", "activating_mailboxes_lock")
DISJOINT_EDGES = {
    ("db_lock", "mh_sequences_lock", "mbox.Mailbox._restore_from_db"): "called only from Mailbox.new on an object that has not yet escaped its constructor path: no other task can hold its locks",
}


def r10_5(ctx):
    p = ctx.p
    t = typer(p)
    # direct acquisitions per function and the locks held at each call site
    acquires = {}  # fn key -> set(lock)
    for fi in p.functions.values():
        s = set()
        for n in body_walk(fi.node):
            if isinstance(n, (ast.AsyncWith, ast.With)):
                for it in n.items:
                    c = strip_await(it.context_expr)
                    lk = _lock_name(c)
                    if lk:
                        s.add(lk)
        if s:
            acquires[fi.key] = s
    # transitive: may_acquire(F)
    calls = {}
    for fi in p.functions.values():
        if fi.module in ("hashers", "set_password", "trace", "asimapd", "asimapd_user", "generator"):
            continue
        env = None
        outs = []
        for c in calls_in(fi.node):
            if call_name(c) in ("debug", "info", "warning", "error", "exception"):
                continue
            if env is None:
                env = env_of(p, fi)
            for cal in t.resolve_call(c, env, unique_fallback=True):
                outs.append((c, cal.key))
        calls[fi.key] = outs
    may = {k: set(v) for k, v in acquires.items()}
    changed = True
    while changed:
        changed = False
        for k, outs in calls.items():
            for _c, callee in outs:
                add = may.get(callee, set()) - may.get(k, set())
                if add:
                    may.setdefault(k, set()).update(add)
                    changed = True
    edges = {}
    for fi in p.functions.values():
        if fi.key not in calls:
            continue
        par = parmap(fi)
        for n in body_walk(fi.node):
            held = []
            cur = n
            while cur in par:
                pr = par[cur]
                if isinstance(pr, (ast.AsyncWith, ast.With)) and cur in pr.body:
                    for it in pr.items:
                        lk = _lock_name(strip_await(it.context_expr))
                        if lk:
                            held.append(lk)
                cur = pr
            if not held:
                continue
            inner = set()
            if isinstance(n, (ast.AsyncWith, ast.With)):
                for it in n.items:
                    lk = _lock_name(strip_await(it.context_expr))
                    if lk:
                        inner.add(lk)
            if isinstance(n, ast.Call):
                env = env_of(p, fi)
                for cal in t.resolve_call(n, env, unique_fallback=True):
                    inner |= may.get(cal.key, set())
            for h in held:
                for i in inner:
                    if h != i:
                        edges.setdefault((h, i), []).append((fi.key, getattr(n, "lineno", 0)))
    # `async with a, b:` orders a before b
    for fi in p.functions.values():
        for n in body_walk(fi.node):
            if isinstance(n, (ast.AsyncWith, ast.With)) and len(n.items) > 1:
                lks = [_lock_name(strip_await(it.context_expr)) for it in n.items]
                for i in range(len(lks)):
                    for j in range(i + 1, len(lks)):
                        if lks[i] and lks[j] and lks[i] != lks[j]:
                            edges.setdefault((lks[i], lks[j]), []).append((fi.key, n.lineno))
    ctx.floor("R10.5", len(edges), 1, "lock-order edges")
    # remove instance-disjoint edges
    eff = {}
    for (a, b), sites in edges.items():
        keep = [s for s in sites if (a, b, s[0]) not in DISJOINT_EDGES]
        if keep:
            eff[(a, b)] = keep
        else:
            ctx.ok("R10.5", sites[0][0].replace(".", ":", 1), f"edge {a} -> {b} is instance-disjoint: {DISJOINT_EDGES[(a, b, sites[0][0])]}", nontrivial=False)
    # cycle detection
    adj = {}
    for (a, b) in eff:
        adj.setdefault(a, set()).add(b)
    cyc = None
    for (a, b) in eff:
        # path b ->* a ?
        seen, todo = set(), [b]
        while todo:
            x = todo.pop()
            if x == a:
                cyc = (a, b)
                break
            if x in seen:
                continue
            seen.add(x)
            todo.extend(adj.get(x, ()))
        if cyc:
            break
    if cyc:
        a, b = cyc
        s = eff[(a, b)][0]
        mod, q = s[0].split(".", 1)
        ctx.bad("R10.5", mod, q, f"lock order cycle through {a} -> {b}", f"lock-order graph has a cycle through {a} -> {b} (acquired in {s[0]} @{s[1]}): two tasks taking the locks in opposite orders deadlock", s[1])
    else:
        for (a, b), sites in sorted(eff.items()):
            ctx.ok("R10.5", sites[0][0].replace(".", ":", 1), f"lock-order edge {a} -> {b} ({len(sites)} site(s)); graph acyclic")
    # (b) release-before-acquire
    cp = p.func("mbox.Mailbox.copy")
    g = ctx.cfg(cp)
    adm = [n.id for n in g.nodes if n.kind == "with_enter" and "ready_and_okay" in norm(n.ast.items[0].context_expr)]
    ctx.require(adm, "copy(): destination admission not found")
    rel = {n.id for n in g.nodes if n.kind == "stmt" and isinstance(n.ast, ast.Assign) and norm(n.ast.targets[0]) == "imap_cmd.completed" and isinstance(n.ast.value, ast.Constant) and n.ast.value.value is True}
    if not rel:
        ctx.bad("R10.5", cp.module, cp.qual, "imap_cmd.completed = True", "copy() never releases the source command before requesting the destination", cp.node.lineno)
    else:
        # every path entry -> admission passes the release test node `if imap_cmd:` -> release (path predicate imap_cmd true)
        def cls(e):
            return "cmd" if isinstance(e, ast.Name) and e.id == "imap_cmd" else None
        hit = flow.feasible_paths_exist(g, g.entry, set(adm), cls, initial={"cmd": True}, labels=flow.ALL, avoid=lambda n: n in rel)
        ctx.paths_explored += 1
        if hit:
            ctx.bad("R10.5", cp.module, cp.qual, "source not released before destination admission", "copy() can request the destination mailbox's admission while still holding its slot on the source: opposite-direction COPY/MOVE wait on each other until the watchdog", g.nodes[adm[0]].line, flow.fmt_path(g, hit[0]))
        else:
            ctx.ok("R10.5", where(cp), "with imap_cmd given, completed=True is set on every path (incl. exceptions) before the destination admission is requested")
    for m in ("do_copy", "do_move"):
        fi = p.func(f"client.Authenticated.{m}")
        for c in calls_in(fi.node):
            if call_name(c) == "copy" and "mbox" in norm(call_recv(c) or ast.Name("")):
                adm_calls = in_admission(c, fi)
                v = kwarg(c, "imap_cmd") or (c.args[3] if len(c.args) > 3 else None)
                if adm_calls and v is not None and norm(v) == norm(call_recv(adm_calls[0])):
                    ctx.ok("R10.5", where(fi), f"copy(..., imap_cmd={norm(v)}) hands over the admitted command so the source can be released")
                else:
                    ctx.bad(
                        "R10.5", fi.module, fi.qual, norm(c.func) + "(..., imap_cmd=?)",
                        f"{m} calls copy() under its own admission without imap_cmd=<that command>: the source slot is held "
                        "while waiting for the destination; COPY into the selected mailbox or two opposite-direction COPYs "
                        "never complete (watchdog)",
                        c.lineno,
                    )
    # (c) queue consumers
    for fi in p.functions.values():
        for c in calls_in(fi.node):
            if call_name(c) in ("get", "get_nowait") and isinstance(call_recv(c), ast.Attribute) and call_recv(c).attr == "task_queue":
                if fi.key in ("mbox.Mailbox.management_task", "mbox.Mailbox.shutdown"):
                    ctx.ok("R10.5", where(fi), f"task_queue.{call_name(c)}() by the queue's owner", nontrivial=False)
                else:
                    ctx.bad("R10.5", fi.module, fi.qual, norm(c), "the admission queue is consumed outside management_task/shutdown", c.lineno)


def _lock_name(c):
    if isinstance(c, ast.Attribute) and c.attr in LOCKS:
        return c.attr
    return None


def r10_7(ctx):
    p = ctx.p
    fi = p.func("mbox.Mailbox.management_task")
    g = ctx.cfg(fi)
    ccp = p.func("mbox.Mailbox.command_can_proceed")
    ccp_cleans = False
    gc = ctx.cfg(ccp)
    cl = {n.id for n in gc.nodes if n.ast is not None and n.kind == "stmt" and "_cleanup_executing_tasks()" in norm(n.ast)}
    if cl and flow.escapes_without(gc, gc.entry, lambda n: n in cl, [gc.exit]) is None:
        ccp_cleans = True
    clean = {n.id for n in g.nodes if n.ast is not None and n.kind == "stmt" and ("_cleanup_executing_tasks()" in norm(n.ast) or (ccp_cleans and "command_can_proceed(" in norm(n.ast)))}
    tests = [n.id for n in g.nodes if n.kind == "test" and "self.executing_tasks" in norm(n.ast) and isinstance(n.stmt, ast.If)]
    heads = [n.id for n in g.nodes if n.kind == "test" and isinstance(n.stmt, ast.While)]
    ctx.floor("R10.7", len(tests), 2, "emptiness tests of executing_tasks in management_task")
    for tnode in tests:
        seen = flow.reach(g, heads, flow.ALL, avoid=lambda n: n in clean)
        ctx.paths_explored += len(seen)
        if tnode in seen:
            ctx.bad(
                "R10.7", fi.module, fi.qual, norm(g.nodes[tnode].ast),
                "executing_tasks is tested for emptiness without a preceding _cleanup_executing_tasks() since the loop head: "
                "completed commands are never removed on this path, the test stays false and the periodic/new-mail resync "
                "never runs (idle sessions never hear about deliveries)",
                g.nodes[tnode].line, flow.fmt_path(g, flow.path_to(g, seen, tnode)),
            )
        else:
            ctx.ok("R10.7", where(fi), f"test @{g.nodes[tnode].line} is preceded by a clean-up of executing_tasks on every path from the loop head")
    # _cleanup_executing_tasks filters on `completed`
    cu = p.func("mbox.Mailbox._cleanup_executing_tasks")
    ctx.analysed(cu)
    if any(isinstance(s, ast.Assign) and norm(s.targets[0]) == "self.executing_tasks" and isinstance(s.value, ast.ListComp) and "not x.completed" in norm(s.value) for s in body_walk(cu.node)):
        ctx.ok("R10.7", where(cu), "clean-up keeps exactly the commands that are not completed", nontrivial=False)
    else:
        ctx.bad("R10.7", cu.module, cu.qual, "[x for x in executing_tasks if not x.completed]", "_cleanup_executing_tasks no longer drops completed commands", cu.node.lineno)


BUSY_LOOP_OK = {
    "mbox.Mailbox.shutdown": "drains the queue with get_nowait() and leaves through QueueEmpty: bounded by the queue length",
}


def r10_8(ctx):
    """Admission wait loops and bookkeeping.
    (a) every `while` loop of a coroutine in the server modules has an await on every way round (a loop that polls shared
        state without yielding never lets the tasks that would change that state run: the process spins for ever);
    (b) command_can_proceed waits *while* would_conflict() holds and cleans the list of executing commands on every round;
    (c) management_task registers the admitted command in executing_tasks after command_can_proceed returned and before it
        releases the command; the failure arm hands the exception to the waiting command."""
    p = ctx.p
    n_loops = 0
    for fi in p.functions.values():
        if fi.module not in ("mbox", "client", "user_server", "server", "pop3_client", "pop3_server", "parse", "mh") or not isinstance(fi.node, ast.AsyncFunctionDef):
            continue
        loops = [n for n in body_walk(fi.node) if isinstance(n, ast.While)]
        if not loops:
            continue
        g = ctx.cfg(fi)
        for lp in loops:
            n_loops += 1
            tests = [n for n in g.nodes_for(lp) if g.nodes[n].kind == "test"]
            if not tests:
                continue
            awaits = {n.id for n in g.nodes if n.ast is not None and any(isinstance(x, (ast.Await, ast.AsyncFor, ast.AsyncWith)) for x in ([n.ast] if n.kind in ("with_enter", "iter") else walk_no_nested(n.ast))) and n.kind in ("stmt", "test", "with_enter", "iter", "return")}
            # locals assigned in the body bound the loop (remaining -= ...)
            assigned = {t.id for st in lp.body for x in ast.walk(st) if isinstance(x, (ast.Assign, ast.AugAssign)) for t in ast.walk(x.targets[0] if isinstance(x, ast.Assign) else x.target) if isinstance(t, ast.Name)}
            bounded = bool(names_in(lp.test) & assigned)
            body_entry = [e.dst for t in tests for e in g.out[t] if e.label == "true"]
            seen = flow.reach(g, [b for b in body_entry if b not in awaits], flow.NORMAL, avoid=lambda n: n in awaits)
            ctx.paths_explored += len(seen)
            spins = any(t in seen for t in tests) or any(b in tests for b in body_entry)
            if spins and not bounded and fi.key not in BUSY_LOOP_OK:
                ctx.bad(
                    "R10.8", fi.module, fi.qual, f"while {norm(lp.test, 50)}: no await on a way round",
                    f"the loop `while {norm(lp.test, 60)}` can go round without awaiting anything: the condition is changed by other tasks, "
                    "which never get to run - the event loop spins and every session of the user hangs",
                    lp.lineno,
                )
            else:
                ctx.ok("R10.8", where(fi), f"while {norm(lp.test, 40)} @{lp.lineno}: " + ("bounded by a local" if bounded else BUSY_LOOP_OK.get(fi.key, "awaits on every way round")), nontrivial=not bounded)
    ctx.floor("R10.8", n_loops, 12, "while loops in coroutines of the server modules")
    # (b)
    ccp = p.func("mbox.Mailbox.command_can_proceed")
    ctx.analysed(ccp)
    cmdp = ccp.node.args.args[1].arg
    wl = [n for n in body_walk(ccp.node) if isinstance(n, ast.While) and any(isinstance(c, ast.Call) and call_name(c) == "would_conflict" for c in ast.walk(n.test))]
    okb = False
    for w in wl:
        pos = atom_polarity(w.test, lambda x: isinstance(x, ast.Call) and call_name(x) == "would_conflict")
        c = [c for c in ast.walk(w.test) if isinstance(c, ast.Call) and call_name(c) == "would_conflict"][0]
        cleans = any(call_name(c2) == "_cleanup_executing_tasks" for st in w.body for c2 in calls_in(st))
        if pos and c.args and norm(c.args[0]) == cmdp and cleans and w in ccp.node.body:
            okb = True
    early = [r for r in body_walk(ccp.node) if isinstance(r, ast.Return)]
    if okb and not early:
        ctx.ok("R10.8", where(ccp), "waits while would_conflict(<the command>) holds, pruning completed commands every round; no early return")
    else:
        ctx.bad("R10.8", ccp.module, ccp.qual, f"while self.would_conflict({cmdp}): ...", "command_can_proceed no longer waits exactly while the command conflicts with the executing ones (test negated / other command / early return / completed commands never pruned): conflicting commands run together or a command waits for ever", ccp.node.lineno)
    # the second wait (periodic full stop): while executing_tasks is non-empty, pruning every round
    w2 = [n for n in body_walk(ccp.node) if isinstance(n, ast.While) and "executing_tasks" in norm(n.test) and not any(isinstance(c, ast.Call) and call_name(c) == "would_conflict" for c in ast.walk(n.test))]
    for w in w2:
        pos = atom_polarity(w.test, lambda x: isinstance(x, ast.Attribute) and x.attr == "executing_tasks")
        cleans = any(call_name(c2) == "_cleanup_executing_tasks" for st in w.body for c2 in calls_in(st))
        if pos and cleans:
            ctx.ok("R10.8", where(ccp), "periodic full stop: waits while commands are executing, pruning completed ones every round")
        else:
            ctx.bad("R10.8", ccp.module, ccp.qual, f"while {norm(w.test)}: ... _cleanup_executing_tasks()", "the wait for all executing commands to finish is negated or never prunes completed commands: it never ends (every command on this mailbox hangs after 10 s of load)", w.lineno)
    # (c)
    mt = p.func("mbox.Mailbox.management_task")
    g = ctx.cfg(mt)
    # resync / pack only while nothing is executing (a resync renumbers positions under a running command)
    par = parmap(mt)
    for c in calls_in(mt.node):
        if call_name(c) in ("check_new_msgs_and_flags", "_pack_if_necessary"):
            cur, guarded, in_loop = c, False, False
            while cur in par:
                pr = par[cur]
                if isinstance(pr, ast.While):
                    in_loop = True
                if isinstance(pr, ast.If) and cur in pr.body:
                    pos = atom_polarity(pr.test, lambda x: isinstance(x, ast.Attribute) and x.attr == "executing_tasks")
                    if pos is False:
                        guarded = True
                cur = pr
            if not in_loop:
                ctx.ok("R10.8", where(mt), f"{call_name(c)}() @{c.lineno} before the loop starts (nothing admitted yet)", nontrivial=False)
            elif guarded:
                ctx.ok("R10.8", where(mt), f"{call_name(c)}() @{c.lineno} only under `not self.executing_tasks`")
            else:
                ctx.bad("R10.8", mt.module, mt.qual, f"{call_name(c)}() outside `if not self.executing_tasks`", f"{call_name(c)}() can run while admitted commands are executing: message positions / keys change under a running FETCH, STORE or SEARCH", c.lineno)
    ccp_nodes = {n.id for n in g.nodes if n.ast is not None and n.kind == "stmt" and any(call_name(c) == "command_can_proceed" for c in calls_in(n.ast))}
    app = {n.id for n in g.nodes if n.ast is not None and n.kind == "stmt" and any(call_name(c) == "append" and norm(call_recv(c) or ast.Name("")) == "self.executing_tasks" for c in calls_in(n.ast))}
    ctx.require(ccp_nodes, "management_task: call of command_can_proceed not found")
    if not app:
        ctx.bad("R10.8", mt.module, mt.qual, "self.executing_tasks.append(<cmd>)", "the admitted command is never registered in executing_tasks: would_conflict() sees nothing executing and every command is admitted at once", mt.node.lineno)
    else:
        bad = False
        for a in app:
            if flow.dominated_by(g, a, lambda n: n in ccp_nodes) is not None:
                bad = True
        # from command_can_proceed, every normal path to the next loop round passes the append
        heads = [n.id for n in g.nodes if n.kind == "test" and isinstance(n.stmt, ast.While)]
        for c0 in ccp_nodes:
            succ = [e.dst for e in g.out[c0] if e.label in flow.NORMAL]
            w = flow.reach(g, succ, flow.NORMAL, avoid=lambda n: n in app)
            ctx.paths_explored += len(w)
            if any(h in w for h in heads):
                bad = True
        if bad:
            ctx.bad("R10.8", mt.module, mt.qual, "command_can_proceed -> executing_tasks.append", "a command can be released without having been registered in executing_tasks after its admission wait (or is registered before the wait): later commands do not see it and run concurrently with it", mt.node.lineno)
        else:
            ctx.ok("R10.8", where(mt), "admitted command is appended to executing_tasks after command_can_proceed and before the next round, on every normal path")
    hand = [n for n in body_walk(mt.node) if isinstance(n, ast.ExceptHandler) and n.name and any(isinstance(s_, ast.Assign) and isinstance(s_.targets[0], ast.Attribute) and s_.targets[0].attr == "mgmt_exception" and norm(s_.value) == n.name for s_ in n.body)]
    if hand:
        ctx.ok("R10.8", where(mt), "failure arm hands the exception to the waiting command (mgmt_exception)")
    else:
        ctx.bad("R10.8", mt.module, mt.qual, "<cmd>.mgmt_exception = exc", "when preparing a command fails (message set out of range, resync error) the waiting command is released without the exception: it runs as if admitted - unregistered, and with a stale message set - instead of answering BAD/NO", mt.node.lineno)


def r10_9(ctx):
    """The waiting side of the admission hand-shake (IMAPClientCommand.ready_and_okay): queue the command, wait for `ready`,
    refuse when the mailbox was deleted meanwhile or the management task handed over a failure (arm-exact), run the body, and
    mark the command completed on every exit (`finally`) - that is what lets the management task admit the next one."""
    from .common import pm_of

    p = ctx.p
    fi = p.func("parse.IMAPClientCommand.ready_and_okay")
    ctx.analysed(fi)
    pm = pm_of(p, fi)
    shape = (
        "try:\n    mbox.task_queue.put_nowait(self)\n    await self.ready.wait()\n    if mbox.deleted:\n        ...\n        raise NoSuchMailbox(...)\n"
        "    if self.mgmt_exception is not None:\n        raise self.mgmt_exception\n    yield\nfinally:\n    self.completed = True\n    ..."
    )
    if pm.has(shape):
        ctx.ok("R10.9", where(fi), "queue -> wait for ready -> refuse if deleted / failure handed over -> body -> completed in finally")
    else:
        ctx.bad(
            "R10.9", fi.module, fi.qual, "try: put_nowait; await ready.wait(); if deleted: raise; if mgmt_exception is not None: raise; yield finally: completed = True",
            "ready_and_okay no longer has the hand-shake shape: a command may run without having been admitted, run on a deleted mailbox, ignore a failure "
            "the management task handed over (or raise when there is none), or never be marked completed (the mailbox then admits nothing else)",
            fi.node.lineno,
        )


def run(ctx):
    ctx.do(r10_1)
    ctx.do(r10_2)
    ctx.do(r10_3)
    ctx.do(r10_4)
    ctx.do(r10_4_units)
    ctx.do(r10_5)
    ctx.do(r10_7)
    ctx.do(r10_8)
    ctx.do(r10_9)
    from . import c06 as _c06
    ctx.do(_c06.r6_10)
    ctx.do(_c06.r6_7b)  # one Mailbox object, one queue per folder  # no command is queued on a mailbox whose management task is gone
    from . import c01
    ctx.do(c01.r1_5)
    from . import c20 as _c20
    ctx.do(_c20.r20_1)  # POP3's view of the mailbox is a copy, not the lists another session's expunge edits
    ctx.do(_c20.r20_8)  # the unqueued POP3 reader validates the index it reads under a running expunge
    for k, v in DISJOINT_EDGES.items():
        ctx.trust(f"frozen instance-disjoint lock edge {k[0]}->{k[1]} in {k[2]}: {v}")
