"""C16 - message data items are mutually consistent (structural clauses only; weak by design).

 R16.1 one renderer for every octet count and body that can reach a client
 R16.2 RFC822* desugaring table and fetch macros; BODY / BODY.PEEK constructions agree (peek, section, partial)
 R16.3 CRLF-termination idiom before slicing/measuring
 R16.4 sibling agreement of the two header writers (BODY[HEADER] vs BODY[])
 R16.5 COPY reads bytes, date, flags and UID of one and the same message key
"""
from __future__ import annotations

import ast

from ..astutil import body_walk, call_name, call_recv, calls_in, kwarg, names_in, norm, strip_await, walk_no_nested
from .common import where

PROP = "C16"
EXPLANATION = (
    "Almost all of this property is equations between byte strings produced by the stdlib email generator - not static. "
    "Decided: (R16.1) RFC822.SIZE, BODY[..] literals, BODYSTRUCTURE sizes/line counts, SEARCH LARGER/SMALLER and POP3 "
    "STAT/LIST/RETR/TOP all compute from generator.msg_as_bytes / msg_headers_as_bytes / get_msg_size, and no other "
    "flattening API (as_bytes, as_string, BytesGenerator(...).flatten, get_bytes, os.path.getsize) is used in fetch.py, "
    "search.py or pop3_client.py; (R16.2) in _p_fetch_att RFC822 -> BODY[] , RFC822.HEADER -> BODY.PEEK[HEADER], "
    "RFC822.TEXT -> BODY[TEXT] with the matching actual_command, the ALL/FAST/FULL macros expand to the RFC lists, and "
    "every BODY/BODY.PEEK construction passes the computed peek and section (the partial variant also the partial); "
    "(R16.3) FetchAtt.body and _msg_as_bytes append CRLF iff missing before the partial slice and the length are taken; "
    "(R16.4) ASBytesGenerator._write_headers and ASHeaderGenerator._write_headers write each header through the same "
    "expression on both their normal and their fallback path and neither rewrites the value; (R16.5) in Mailbox.copy the "
    "bytes, mtime, sequences and source UID of each copied message are all read with the one key msg_keys[idx - 1]. "
    "Not decided: SIZE = |BODY[]|, HEADER+TEXT = BODY[], partial = slice, idempotent rendering (value-level)."
)
RULE_TEXT = "instances: each size/body producer, each desugared attribute and macro, each FetchAtt construction, the two header writers, each per-message read in copy()"
ASSUMPTIONS = ["RFC 3501 6.4.5 macro/equivalence table frozen in asv/rules/c16.py", "not decided: every byte-level equation of the property"]
LEVEL_TEXT = (
    "Static single-renderer layering, desugaring-table agreement, sibling agreement of the two header writers and "
    "same-key reads in COPY: necessary conditions for the data items to be mutually consistent. The byte equations "
    "themselves are value-level and not decided."
)
LEVEL_NOTE = "Weak by design. Trusted: CPython ast; RFC 3501 equivalences."
TECHNIQUE = "layering (single renderer) + table agreement + sibling-implementation diff"
DESIGN_REF = "DESIGN.md section 3 / C16"

FOREIGN = {"as_bytes", "as_string", "flatten", "getsize", "get_bytes", "get_string", "BytesGenerator", "Generator"}


def r16_1(ctx):
    p = ctx.p
    n = 0
    for mod in ("fetch", "search", "pop3_client"):
        for fi in p.funcs_in(mod):
            for c in calls_in(fi.node):
                nm = call_name(c)
                if nm in FOREIGN:
                    ctx.bad("R16.1", fi.module, fi.qual, norm(c, 80), f"a second rendering/size API ({nm}) is used on a client-facing path: sizes/bodies produced here can disagree with RFC822.SIZE / BODY[] which come from generator.msg_as_bytes", c.lineno)
                if nm in ("msg_as_bytes", "msg_headers_as_bytes", "get_msg_size", "msg_as_string"):
                    n += 1
                    ctx.analysed(fi)
                    ctx.ok("R16.1", where(fi), f"{nm}() - the shared renderer", nontrivial=False)
    ctx.floor("R16.1", n, 12, "uses of the shared renderer in fetch/search/pop3")
    # get_msg_size = len(msg_as_bytes(...)); msg_as_bytes -> _msg_as_bytes
    from .common import pm_of

    gs = p.func("generator.get_msg_size")
    pg = pm_of(p, gs)
    if (pg.has("msg_bytes = msg_as_bytes(msg, render_headers=render_headers)") and pg.has("return len(msg_bytes)")) or pg.has("return len(msg_as_bytes(msg, render_headers=render_headers))") or pg.has("return len(_msg_as_bytes(msg, render_headers=render_headers))") or (pg.has("msg_bytes = _msg_as_bytes(msg, render_headers=render_headers)") and pg.has("return len(msg_bytes)")):
        ctx.ok("R16.1", where(gs), "get_msg_size = len(msg_as_bytes(msg))")
    else:
        ctx.bad("R16.1", gs.module, gs.qual, "len(msg_as_bytes(msg))", "get_msg_size no longer measures the bytes msg_as_bytes produces: RFC822.SIZE differs from the octet count of BODY[]", gs.node.lineno)
    sz = p.func("search.SearchContext.msg_size")
    if "get_msg_size(self.msg())" in norm(sz.node, 1000):
        ctx.ok("R16.1", where(sz), "SearchContext.msg_size = get_msg_size(msg)")
    else:
        ctx.bad("R16.1", sz.module, sz.qual, "get_msg_size(self.msg())", "SearchContext.msg_size no longer uses the shared size function", sz.node.lineno)
    bs = p.func("fetch.FetchAtt.bodystructure")
    pb = pm_of(p, bs)
    if pb.has("payload = msg_as_bytes(msg, render_headers=False)") and pb.has("str(len(payload))") and pb.has("payload.count(b'\\n')"):
        ctx.ok("R16.1", where(bs), "BODYSTRUCTURE size/lines from msg_as_bytes(render_headers=False)")
    else:
        ctx.bad("R16.1", bs.module, bs.qual, "payload = msg_as_bytes(msg, render_headers=False)", "BODYSTRUCTURE no longer measures the rendered body part", bs.node.lineno)


def _fa_calls(fi):
    return [c for c in calls_in(fi.node) if isinstance(c.func, ast.Name) and c.func.id == "FetchAtt"]


def r16_2(ctx):
    p = ctx.p
    fi = p.func("parse.IMAPClientCommand._p_fetch_att")
    ctx.analysed(fi)
    want = {
        "RFC822": {"op": "FetchOp.BODY", "section": "[]", "peek": None, "actual": "RFC822"},
        "RFC822_HEADER": {"op": "FetchOp.BODY", "section": "['header']", "peek": "True", "actual": "RFC822.HEADER"},
        "RFC822_TEXT": {"op": "FetchOp.BODY", "section": "['text']", "peek": None, "actual": "RFC822.TEXT"},
        "RFC822_SIZE": {"op": "FetchOp.RFC822_SIZE", "section": None, "peek": None, "actual": None},
    }
    found = {}
    for m in [n for n in body_walk(fi.node) if isinstance(n, ast.Match)]:
        for c in m.cases:
            if isinstance(c.pattern, ast.MatchValue) and norm(c.pattern.value).startswith("ParseFetchAtt."):
                key = c.pattern.value.attr
                calls = [x for s in c.body for x in ast.walk(s) if isinstance(x, ast.Call) and isinstance(x.func, ast.Name) and x.func.id == "FetchAtt"]
                if calls:
                    found[key] = calls[0]
    ctx.exhaustive_rules.add("R16.2")
    for k, w in want.items():
        c = found.get(k)
        if c is None:
            ctx.bad("R16.2", fi.module, fi.qual, f"case ParseFetchAtt.{k}", f"{k} is no longer desugared in _p_fetch_att", fi.node.lineno)
            continue
        got = {
            "op": norm(c.args[0]) if c.args else None,
            "section": norm(kwarg(c, "section")) if kwarg(c, "section") is not None else None,
            "peek": norm(kwarg(c, "peek")) if kwarg(c, "peek") is not None else None,
            "actual": kwarg(c, "actual_command").value if isinstance(kwarg(c, "actual_command"), ast.Constant) else None,
        }
        if got["peek"] == "False":
            got["peek"] = None
        if got == w:
            ctx.ok("R16.2", where(fi), f"{k} -> FetchAtt({w['op']}, section={w['section']}, peek={w['peek']}, actual_command={w['actual']})")
        else:
            diff = {x: (got[x], w[x]) for x in w if got[x] != w[x]}
            ctx.bad("R16.2", fi.module, fi.qual, norm(c, 120), f"{k.replace('_', '.')} is desugared differently from its RFC 3501 equivalent (found vs expected: {diff}): it no longer equals its BODY[...] counterpart / changes \\Seen differently", c.lineno)
    # BODY / BODY.PEEK constructions after `peek` and `section` are computed
    from .common import pm_of

    pm = pm_of(p, fi)
    pk = pm.find("if fetch_att_tok == ParseFetchAtt.BODY_PEEK:\n    ...\n    peek = True\n    ...\nelse:\n    ...\n    peek = False\n    ...")
    sc0 = pm.find("section = self._p_section()")
    ctx.require(pk is not None and sc0 is not None, "_p_fetch_att: peek/section computation not found")
    peek_var, sect_var = pm.name("peek"), pm.name("section")
    sect_line = sc0.lineno
    late = [c for c in _fa_calls(fi) if c.lineno > sect_line]
    ctx.require(len(late) >= 1, "_p_fetch_att: BODY constructions not found")
    n_partial = 0
    for c in late:
        pk, sc_, pa = kwarg(c, "peek"), kwarg(c, "section"), kwarg(c, "partial")
        okv = pk is not None and norm(pk) == peek_var and sc_ is not None and norm(sc_) == sect_var
        if pa is not None:
            n_partial += 1
            okv = okv and "_p_partial()" in norm(pa)
        if okv:
            ctx.ok("R16.2", where(fi), f"BODY construction @{c.lineno} passes section=section, peek=peek" + (", partial" if pa is not None else ""))
        else:
            ctx.bad("R16.2", fi.module, fi.qual, norm(c, 140), "a BODY[...] construction drops the computed `peek` or `section`: e.g. BODY.PEEK[...]<o.n> then behaves as a non-PEEK fetch and sets \\Seen", c.lineno)
    if n_partial == 0:
        ctx.bad("R16.2", fi.module, fi.qual, "partial=self._p_partial()", "no BODY construction carries the partial any more", fi.node.lineno)
    # macros
    fa = p.func("parse.IMAPClientCommand._p_fetch_atts")
    ctx.analysed(fa)
    macros = {"all": ["FLAGS", "INTERNALDATE", "RFC822_SIZE", "ENVELOPE"], "fast": ["FLAGS", "INTERNALDATE", "RFC822_SIZE"], "full": ["FLAGS", "INTERNALDATE", "RFC822_SIZE", "ENVELOPE", "BODYSTRUCTURE"]}
    for m in [n for n in body_walk(fa.node) if isinstance(n, ast.Match)]:
        for c in m.cases:
            if isinstance(c.pattern, ast.MatchValue) and isinstance(c.pattern.value, ast.Constant) and c.pattern.value.value in macros:
                k = c.pattern.value.value
                ret = [s for s in c.body if isinstance(s, ast.Return)]
                ops = [e.args[0].attr for e in ret[0].value.elts if isinstance(e, ast.Call) and e.args and isinstance(e.args[0], ast.Attribute)] if ret and isinstance(ret[0].value, ast.List) else []
                if ops == macros[k]:
                    ctx.ok("R16.2", where(fa), f"macro {k.upper()} = {macros[k]}")
                else:
                    ctx.bad("R16.2", fa.module, fa.qual, f"macro {k}: {ops}", f"fetch macro {k.upper()} no longer expands to the RFC 3501 list {macros[k]}", c.pattern.lineno)
                if k == "full" and ret and isinstance(ret[0].value, ast.List):
                    bsc = [e for e in ret[0].value.elts if isinstance(e, ast.Call) and norm(e.args[0]) == "FetchOp.BODYSTRUCTURE"]
                    if bsc and isinstance(kwarg(bsc[0], "ext_data"), ast.Constant) and kwarg(bsc[0], "ext_data").value is False and isinstance(kwarg(bsc[0], "actual_command"), ast.Constant) and kwarg(bsc[0], "actual_command").value == "BODY":
                        ctx.ok("R16.2", where(fa), "FULL's last item is the non-extensible BODY form", nontrivial=False)
                    else:
                        ctx.bad("R16.2", fa.module, fa.qual, "FULL: BODY", "FULL no longer ends with the non-extensible BODY form", c.pattern.lineno)
    # fetch_peek derivation in _parse_command
    pc = p.func("parse.IMAPClientCommand._parse_command")
    if "self.fetch_peek = not any((x.attribute == FetchOp.BODY and (not x.peek) for x in self.fetch_atts))" in norm(pc.node, 20000):
        ctx.ok("R16.2", where(pc), "fetch_peek = no BODY attribute without peek")
    else:
        ctx.bad("R16.2", pc.module, pc.qual, "self.fetch_peek = not any(x.attribute == FetchOp.BODY and not x.peek ...)", "fetch_peek is no longer derived from the parsed attributes", pc.node.lineno)


def r16_3(ctx):
    p = ctx.p
    from .common import pm_of

    mb = p.func("generator._msg_as_bytes")
    pmb = pm_of(p, mb)
    last = mb.node.body[-1]
    if pmb.has("msg_bytes = msg_bytes if msg_bytes.endswith(b'\\r\\n') else msg_bytes + b'\\r\\n'") and isinstance(last, ast.Return) and norm(last.value) == pmb.name("msg_bytes"):
        ctx.ok("R16.3", where(mb), "rendered bytes are CRLF-terminated (appended iff missing) before they are returned")
    else:
        ctx.bad("R16.3", mb.module, mb.qual, "msg_bytes if msg_bytes.endswith(b'\\r\\n') else msg_bytes + b'\\r\\n'", "_msg_as_bytes no longer guarantees CRLF termination", mb.node.lineno)
    fb = p.func("fetch.FetchAtt.body")
    pfb = pm_of(p, fb)
    steps = [
        ("terminate", pfb.find("msg_text = msg_text if msg_text.endswith(b'\\r\\n') else msg_text + b'\\r\\n'")),
        ("slice", pfb.find("if self.partial:\n    end = self.partial[0] + self.partial[1]\n    msg_text = msg_text[self.partial[0]:end]")),
        ("emit", pfb.find("return f'{{{len(msg_text)}}}\\r\\n'.encode('latin-1') + msg_text")),
    ]
    order = [nm for nm, n_ in sorted(((nm, n_) for nm, n_ in steps if n_ is not None), key=lambda x: x[1].lineno)]
    if order == ["terminate", "slice", "emit"] and len(order) == 3:
        ctx.ok("R16.3", where(fb), "FetchAtt.body: terminate -> slice [o : o+n] -> emit")
    else:
        ctx.bad("R16.3", fb.module, fb.qual, " -> ".join(order), "FetchAtt.body no longer terminates with CRLF, then takes exactly [origin : origin+count], then emits", fb.node.lineno)


def _write_exprs(fi):
    """(normal write expr, fallback write expr, assignments to loop vars) of a _write_headers loop."""
    loops = [n for n in body_walk(fi.node) if isinstance(n, ast.For) and "raw_items()" in norm(n.iter)]
    if not loops:
        return None
    lp = loops[0]
    h, v = [e.id for e in lp.target.elts]
    tr = [n for n in ast.walk(lp) if isinstance(n, ast.Try)]
    if not tr:
        return None
    def w(stmts):
        out = []
        for s in stmts:
            for c in ast.walk(s):
                if isinstance(c, ast.Call) and call_name(c) == "write":
                    out.append(norm(c.args[0], 300))
        return out
    normal = w(tr[0].body)
    fallback = [x for hd in tr[0].handlers for x in w(hd.body)]
    handlers = [norm(hd.type) for hd in tr[0].handlers]
    rewrites = [norm(s, 200) for s in ast.walk(lp) if isinstance(s, (ast.Assign, ast.AugAssign)) and any(isinstance(t, ast.Name) and t.id in (h, v) for t in (s.targets if isinstance(s, ast.Assign) else [s.target]))]
    return normal, fallback, handlers, rewrites


def r16_4(ctx):
    p = ctx.p
    a = p.func("generator.ASBytesGenerator._write_headers")
    b = p.func("generator.ASHeaderGenerator._write_headers")
    ctx.analysed(a)
    ctx.analysed(b)
    ea, eb = _write_exprs(a), _write_exprs(b)
    ctx.require(ea and eb, "generator: header writer loops not found")
    for i, what in enumerate(("normal write", "fallback write", "caught exceptions")):
        if ea[i] == eb[i]:
            ctx.ok("R16.4", "generator:ASBytesGenerator/ASHeaderGenerator._write_headers", f"{what} identical in both writers: {ea[i]}")
        else:
            ctx.bad("R16.4", "generator", "ASHeaderGenerator._write_headers", f"{what}: {eb[i]} vs {ea[i]}", f"the header-only writer and the whole-message writer differ in their {what}: BODY[HEADER] stops being a prefix of BODY[] (HEADER + TEXT != BODY[])", b.node.lineno)
    if ea[3] or eb[3]:
        who = b if eb[3] else a
        ctx.bad("R16.4", who.module, who.qual, (eb[3] or ea[3])[0], "one header writer rewrites the header name/value before writing it while its sibling does not: BODY[HEADER] and BODY[] render that header differently", who.node.lineno)
    else:
        ctx.ok("R16.4", "generator:ASBytesGenerator/ASHeaderGenerator._write_headers", "neither writer rewrites the header name/value inside the loop")


def r16_4b(ctx):
    """The text / bytes renderers try one generator and, when that raises on a header it cannot encode, a second one with a
    more permissive policy.  The fallback is the same rendering under another policy: it is built with the same `headers`
    and `mangle_from_` arguments.  (A fallback without `headers=headers` renders the body alone - SEARCH TEXT, RFC822.SIZE
    and the literal then differ from what the first generator would have produced for the same message.)"""
    p = ctx.p
    n = 0
    for key in ("generator._msg_as_string", "generator._msg_as_bytes", "generator.msg_as_string", "generator.msg_as_bytes"):
        if key not in p.functions:
            continue
        fi = p.func(key)
        gens = [c for c in calls_in(fi.node) if isinstance(c.func, ast.Name) and c.func.id.endswith("Generator")]
        if len(gens) < 2:
            continue
        ctx.analysed(fi)
        n += 1
        sigs = []
        for c in gens:
            kw = {k.arg: norm(k.value) for k in c.keywords if k.arg not in ("policy",)}
            sigs.append((c.func.id, tuple(norm(a) for a in c.args), tuple(sorted(kw.items()))))
        if len(set(sigs)) == 1 and any("headers" in k for k, _ in sigs[0][2]):
            ctx.ok("R16.4", where(fi), f"{len(gens)} generator constructions agree on everything but the policy: {sigs[0][0]}({', '.join(k + '=' + v for k, v in sigs[0][2])})")
        else:
            odd = next((c for c, s in zip(gens, sigs) if s != sigs[0]), gens[-1])
            ctx.bad("R16.4", fi.module, fi.qual, norm(odd, 100), "the fallback generator is not built like the first one (same class, same `headers` / `mangle_from_`, only the policy differs): a message that needs the fallback is rendered without its headers (or with From-mangling) - SEARCH TEXT misses what is only in its header, sizes and literals differ from the other data items", odd.lineno)
    ctx.floor("R16.4b", n, 1, "renderers with a fallback generator")


def r16_4c(ctx):
    """The stdlib flattens a multipart by *cloning* the generator for every sub-part, and it relies on the clone carrying the
    parent's settings - in particular the policy: while it renders a multipart/signed it switches header re-folding off on
    the parent and expects the sub-part generators to inherit that.  Every clone() of the generators in generator.py therefore
    builds `self.__class__(fp, self._mangle_from_, None, ..., policy=self.policy)`; a clone without the policy re-folds the
    long header lines of signed parts - BODY[] no longer returns what was stored."""
    p = ctx.p
    n = 0
    for fi in p.funcs_in("generator"):
        if fi.name != "clone":
            continue
        ctx.analysed(fi)
        n += 1
        cons = [c for c in calls_in(fi.node) if norm(c.func) in ("self.__class__", "type(self)")]
        okv = bool(cons)
        for c in cons:
            kw = {k.arg: norm(k.value) for k in c.keywords}
            pos = [norm(a) for a in c.args]
            if kw.get("policy") != "self.policy" or len(pos) < 2 or pos[1] != "self._mangle_from_":
                okv = False
        if okv:
            ctx.ok("R16.4", where(fi), "clone() hands the parent's policy and From-mangling setting to the sub-part generator")
        else:
            ctx.bad("R16.4", fi.module, fi.qual, norm(cons[0], 100) if cons else "clone()", "clone() no longer builds the sub-part generator with the parent's policy / mangle setting: sub-parts are rendered under the default policy (long headers of multipart/signed parts are re-folded, `filename=` becomes RFC 2231 continuations) - BODY[], RFC822 and BODY[TEXT] differ from the stored message", fi.node.lineno)
    ctx.floor("R16.4c", n, 3, "clone() methods of the generators")


def r16_5(ctx):
    from .common import pm_of

    p = ctx.p
    fi = p.func("mbox.Mailbox.copy")
    ctx.analysed(fi)
    pm = pm_of(p, fi)
    lp = pm.find("for idx in msg_idxs:\n    msg_key = self.msg_keys[idx - 1]\n    ...")
    if lp is None:
        ctx.bad("R16.5", fi.module, fi.qual, "for idx in msg_idxs: msg_key = self.msg_keys[idx - 1]", "copy() no longer derives each message key as msg_keys[sequence number - 1] at the top of its read loop", fi.node.lineno)
        return
    key = pm.name("msg_key")
    ctx.ok("R16.5", where(fi), f"{key} = self.msg_keys[{pm.name('idx')} - 1]")
    reads = {"get_bytes": None, "mbox_msg_path": None, "msg_sequences": None, "get_uid_from_msg": None}
    for c in [x for s_ in lp.body for x in ast.walk(s_) if isinstance(x, ast.Call)]:
        nm = call_name(c)
        if nm in reads:
            arg = c.args[-1] if nm == "mbox_msg_path" else c.args[0]
            reads[nm] = (norm(arg), c)
    for nm, v in reads.items():
        if v is None:
            ctx.bad("R16.5", fi.module, fi.qual, nm, f"copy() no longer reads {nm} per message", lp.lineno)
            continue
        a = v[0].replace("str(", "").replace(")", "")
        if a == key:
            ctx.ok("R16.5", where(fi), f"{nm}(..{v[0]}..) uses the message key")
        else:
            ctx.bad("R16.5", fi.module, fi.qual, f"{nm}(<not the message key>)", f"copy() reads {nm} with `{v[0]}` instead of the message key: the bytes/date/flags/UID of one copied message come from different messages (a COPY does not return its source's bytes)", v[1].lineno)
    # write side: messages added in the order read; utime(mtime) preserved; sequences carried over
    for pat, what in (
        ("msg_seqs = self.msg_sequences(msg_key)\ncopy_msgs.append((msg_path, msg_seqs, mtime))", "per-message record = (bytes file, sequences of that key, mtime)"),
        ("for msg_path2, sequences, mtime2 in copy_msgs:\n    ...", "messages are written in the order they were read"),
        ("await utime(mbox_msg_path(dst_mbox.mailbox, msg_key2), (mtime2, mtime2))", "internal date (mtime) carried to the copy"),
        ("for sequence in sequences:\n    dest_mbox_seqs[sequence].add(msg_key2)", "flags (sequences) carried to the copy"),
        ("with open(msg_path, 'wb') as f:\n    f.write(msg)", "the bytes read are what is written to the staging file"),
        ("_, src_uid = self.get_uid_from_msg(msg_key)\nsrc_uids.append(src_uid)", "source UID looked up for the key being read; every source message's UID is reported (MOVE removes exactly these)"),
        ("with open(msg_path2, 'rb') as f2:\n    msg2 = f2.read()", "the staged bytes are what is added to the destination"),
        ("msg_key2 = int(dst_mbox.mailbox.add(msg2))", "the staged bytes are added to the destination folder, its key kept"),
        ("dst_msg_keys.append(msg_key2)", "destination keys recorded in the order added"),
        ("dst_mbox.set_sequences_in_folder(dest_mbox_seqs)", "the copies' flags are written to the destination's .mh_sequences"),
        ("for k in dst_msg_keys:\n    _, dst_uid = dst_mbox.get_uid_from_msg(k)\n    dst_uids.append(dst_uid)", "destination UIDs looked up per added key, in order"),
        ("return (src_uids, dst_uids)", "source and destination UIDs returned pairwise"),
    ):
        # the write loop may re-use the read loop's local names: try the pattern with the names already bound first (a fresh
        # variable would unify with any statement of the same shape)
        if pm.has(pat.replace("msg_path2", "msg_path").replace("mtime2", "mtime").replace("msg_key2", "msg_key").replace("msg2", "msg").replace("f2", "f")) or pm.has(pat):
            ctx.ok("R16.5", where(fi), what)
        else:
            ctx.bad("R16.5", fi.module, fi.qual, what, f"copy() lost: {what}", fi.node.lineno)


def r16_6(ctx):
    """The per-message context (SearchContext) is the one place FETCH and SEARCH read a message's size, date, UID and flags
    from.  Each accessor computes its value from the message *of this context* and memoises it on the context object only - a
    context lives for one command.  A value kept anywhere that outlives the command (a dict on the mailbox keyed by MH
    message key, a module-level table) goes stale when the key is re-used after an expunge or the folder is packed."""
    from .common import pm_of

    p = ctx.p
    ci = p.cls("SearchContext")
    table = {
        "msg_size": ("self._msg_size", ["self._msg_size = get_msg_size(self.msg())"]),
        "msg": ("self._msg", ["self._msg = self.mailbox.get_msg(self.msg_key)"]),
        "uid": ("self._uid", ["self._uid_vv, self._uid = self.mailbox.get_uid_from_msg(self.msg_key)"]),
        "internal_date": ("self._internal_date", ["self._internal_date = internal_date", "self._internal_date = datetime.fromtimestamp(self.path.stat().st_mtime, UTC)"]),
        "sequences": ("self._sequences", ["self._sequences = self.mailbox.msg_sequences(self.msg_key)"]),
    }
    n = 0
    for m, (slot, shapes) in table.items():
        fi = ci.methods.get(m)
        ctx.require(fi is not None, f"SearchContext.{m} vanished", anchor=True)
        n += 1
        ctx.analysed(fi)
        pm = pm_of(p, fi)
        stores = [s_ for s_ in body_walk(fi.node) if isinstance(s_, ast.Assign)]
        # every store in the accessor goes to the context's own slots or to locals; nothing is written through self.mailbox
        foreign = []
        for s_ in body_walk(fi.node):
            tgts = []
            if isinstance(s_, ast.Assign):
                tgts = s_.targets
            elif isinstance(s_, ast.AugAssign):
                tgts = [s_.target]
            for t in tgts:
                for x in ([t] if not isinstance(t, ast.Tuple) else t.elts):
                    if isinstance(x, ast.Subscript) or (isinstance(x, ast.Attribute) and not (isinstance(x.value, ast.Name) and x.value.id == "self" and x.attr.startswith("_"))):
                        foreign.append(s_)
        rets = [r for r in body_walk(fi.node) if isinstance(r, ast.Return) and r.value is not None]
        if foreign:
            ctx.bad("R16.6", fi.module, fi.qual, norm(foreign[0], 80), f"{m}() stores its value outside the per-command context (`{norm(foreign[0], 60)}`): a value remembered across commands under an MH message key is served for another message once that key is re-used (RFC822.SIZE disagrees with BODY[])", foreign[0].lineno)
        elif not any(pm.has(sh) for sh in shapes) or not all(norm(r.value) == slot for r in rets):
            ctx.bad("R16.6", fi.module, fi.qual, f"{slot} = <value of this context's message>", f"{m}() no longer computes its value from this context's own message and returns the memoised slot `{slot}`", fi.node.lineno)
        else:
            ctx.ok("R16.6", where(fi), f"{m}(): computed from this context's message, memoised on the context only")
    ctx.floor("R16.6", n, 5, "SearchContext accessors")


def r16_7(ctx):
    """The section renderers of FetchAtt._single_section hand on header *selection* only where the client asked for one:
    `HEADER.FIELDS (..)` / `HEADER.FIELDS.NOT (..)` pass the client's list (`section[1]`) with skip=False / skip=True; HEADER
    and MIME render every header field, as BODY[] and RFC822.SIZE do.  A fixed list slipped into one of them (a header
    `that is ours`) makes BODY[HEADER] + BODY[TEXT] differ from BODY[] and its length from RFC822.SIZE for the messages that
    carry the field."""
    p = ctx.p
    fi = p.func("fetch.FetchAtt._single_section")
    ctx.analysed(fi)
    par = parmap_of(fi)
    calls = [c for c in calls_in(fi.node) if call_name(c) == "msg_headers_as_bytes"]
    ctx.floor("R16.7", len(calls), 4, "header renderings in _single_section")
    seen_skip = set()
    for c in calls:
        hs = c.args[1] if len(c.args) > 1 else kwarg(c, "headers")
        sk = c.args[2] if len(c.args) > 2 else kwarg(c, "skip")
        # label of the enclosing `case "...":`
        label = None
        cur = c
        while cur in par:
            cur = par[cur]
            if isinstance(cur, ast.match_case) and isinstance(cur.pattern, ast.MatchValue) and isinstance(cur.pattern.value, ast.Constant):
                label = cur.pattern.value.value
                break
        if hs is None or (isinstance(hs, ast.Constant) and hs.value is None):
            if label in ("HEADER.FIELDS", "HEADER.FIELDS.NOT"):
                ctx.bad("R16.7", fi.module, fi.qual, norm(c, 80), f"{label} renders without the client's field list", c.lineno)
            else:
                ctx.ok("R16.7", where(fi), f"{label or 'section'}: all header fields", nontrivial=False)
            continue
        src = hs
        if isinstance(src, ast.Name):
            d = [s for s in body_walk(fi.node) if isinstance(s, ast.Assign) and len(s.targets) == 1 and isinstance(s.targets[0], ast.Name) and s.targets[0].id == src.id]
            # one definition per case arm: take those in the same arm as the call
            same = [s for s in d if _same_block(par, s, c)]
            src = (same or d or [None])[0]
            src = src.value if src is not None else hs
        from_client = "section[1]" in norm(src)
        skv = True if sk is None else (sk.value if isinstance(sk, ast.Constant) and isinstance(sk.value, bool) else None)
        if not from_client:
            ctx.bad("R16.7", fi.module, fi.qual, norm(c, 90), f"`{label or 'a section'}` is rendered with a header selection (`{norm(hs, 40)}`) that is not the client's list: the header block differs from the one inside BODY[] / counted by RFC822.SIZE", c.lineno)
            continue
        if skv is None:
            ctx.bad("R16.7", fi.module, fi.qual, norm(c, 90), "skip= is not a constant: which of HEADER.FIELDS / HEADER.FIELDS.NOT this renders cannot be read off", c.lineno)
            continue
        want = {"HEADER.FIELDS": False, "HEADER.FIELDS.NOT": True}.get(label)
        if want is not None and want != skv:
            ctx.bad("R16.7", fi.module, fi.qual, norm(c, 90), f"{label} renders with skip={skv}: the fields asked for are the ones left out", c.lineno)
            continue
        seen_skip.add(skv)
        ctx.ok("R16.7", where(fi), f"{label or 'section'}: client's list, skip={skv}")
    if seen_skip != {True, False}:
        ctx.bad("R16.7", fi.module, fi.qual, "HEADER.FIELDS / HEADER.FIELDS.NOT", "the two field-list sections no longer render one with skip=False and one with skip=True", fi.node.lineno)


def parmap_of(fi):
    from .common import parmap

    return parmap(fi)


def _same_block(par, a, b) -> bool:
    """a is an earlier statement of a block that (transitively) contains b"""
    cur = b
    while cur in par:
        up = par[cur]
        for fld in ("body", "orelse"):
            lst = getattr(up, fld, None)
            if isinstance(lst, list) and cur in lst and a in lst:
                return True
        cur = up
    return False


def run(ctx):
    ctx.do(r16_1)
    ctx.do(r16_2)
    ctx.do(r16_3)
    ctx.do(r16_4)
    ctx.do(r16_4b)
    ctx.do(r16_4c)
    ctx.do(r16_5)
    ctx.do(r16_6)
    ctx.do(r16_7)
    from . import c08
    ctx.do(c08.r8_5b)
    from . import c10
    ctx.do(c10.r10_4_units, modules=("mbox", "fetch", "search"))
