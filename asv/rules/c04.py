"""C04 - message flags follow IMAP STORE/FETCH semantics.

 R4.1 flag <-> sequence tables agree (injective map, inverse, PERMANENTFLAGS, lookup-else-identity shape)
 R4.2 the \\Recent guard of STORE covers every client spelling that maps to the Recent sequence
 R4.3 Seen / unseen are updated as complements at every write site
 R4.4 effect order in store(): apply -> .mh_sequences (under lock) -> db commit -> notify others
 R4.5 SILENT / issuer echo in do_store
"""
from __future__ import annotations

import ast

from .. import flow
from ..astutil import atom_polarity, polarity_atoms, body_walk, call_name, call_recv, calls_in, kwarg, names_in, norm, strip_await, walk_no_nested
from ..loader import AnalysisError
from ..pattern import _canon_if
from .common import in_lock, parmap, where

PROP = "C04"
EXPLANATION = (
    "Flags are MH sequences. Decided: (R4.1) by literal evaluation of constants.py, SYSTEM_FLAG_MAP is injective, its "
    "values are exactly SYSTEM_FLAGS, REV_SYSTEM_FLAG_MAP is its inverse, PERMANENT_FLAGS is within SYSTEM_FLAGS+{\\*} "
    "and excludes the non-settable flag, and flag_to_seq/seq_to_flag have the lookup-else-identity shape; (R4.2) from "
    "that shape the set of raw client spellings that reach the Recent sequence is computed and Mailbox.store must reject "
    "all of them before its first mutation; (R4.3) an abstract evaluation of _help_add_flag/_help_remove_flag for flag in "
    "{Seen, unseen, other} yields exactly the complementary operation on the other sequence, _help_replace_flags adds "
    "unseen when Seen is absent and keeps Recent, and every other site that writes Seen or unseen writes the opposite on "
    "the other sequence for the same key; (R4.4) in store() the first flag mutation is followed on every normal path by "
    "set_sequences_in_folder (inside mh_sequences_lock), then commit_to_db, then _dispatch_or_pend_notifications; (R4.5) "
    "do_store echoes the FETCH lines exactly when cmd.silent is false and passes dont_notify=self. "
    "Decides these clauses, not equality with a reference flag model over operation sequences."
    ' (R4.7) _p_flag, the one producer of client flags, folds every case variant of a system flag to its canonical spelling before anything downstream (all case-sensitive) sees it.'
)
RULE_TEXT = (
    "instances: each table relation; each spelling of the non-settable flag; each (function, flag case) of the abstract "
    "evaluation; each Seen/unseen write site; each ordering pair in store(); non-trivial = needed evaluation or a CFG query"
)
ASSUMPTIONS = ["constants.py tables are plain literals (checked: otherwise ANALYSIS-ERROR)", "not decided: flag model equality over sequences of operations"]
LEVEL_TEXT = (
    "Static table agreement + abstract evaluation of the flag helpers + CFG ordering in store(): decides structural "
    "necessary conditions R4.1-R4.5 of STORE/FETCH flag semantics (complement of Seen/unseen, \\Recent not client-settable "
    "under any spelling, write-file-commit-notify order, SILENT echo)."
)
LEVEL_NOTE = "Structural clauses only. Trusted: CPython ast / literal_eval of constants.py."
TECHNIQUE = "table agreement by literal evaluation + tiny abstract interpreter of flag helpers + CFG must-pass-through"
DESIGN_REF = "DESIGN.md section 3 / C04"


def _lit(p, mod, name):
    node = p.module_constant(mod, name)
    try:
        return ast.literal_eval(node)
    except Exception as e:
        raise AnalysisError(f"anchor not evaluable: {mod}.{name}: {e}") from None


def r4_1(ctx):
    p = ctx.p
    fmap = _lit(p, "constants", "SYSTEM_FLAG_MAP")
    sysf = _lit(p, "constants", "SYSTEM_FLAGS")
    perm = _lit(p, "constants", "PERMANENT_FLAGS")
    nons = _lit(p, "constants", "NON_SETTABLE_FLAGS")
    nons = {nons} if isinstance(nons, str) else set(nons)
    ctx.exhaustive_rules.add("R4.1")
    W = "constants:<module>"
    checks = [
        (len(set(fmap.values())) == len(fmap), "SYSTEM_FLAG_MAP is injective (no two sequences map to one flag)"),
        (set(fmap.values()) == set(sysf), "values of SYSTEM_FLAG_MAP == SYSTEM_FLAGS"),
        (set(perm) <= set(sysf) | {r"\*"}, "PERMANENT_FLAGS within SYSTEM_FLAGS + \\*"),
        (not (set(perm) & nons), "PERMANENT_FLAGS excludes the non-settable flag(s)"),
        (nons <= set(sysf), "NON_SETTABLE_FLAGS are system flags"),
        (all(not k.startswith("\\") for k in fmap), "sequence names carry no backslash (MH restriction)"),
        (fmap.get("Seen") == r"\Seen" and "unseen" not in fmap, "Seen sequence <-> \\Seen; `unseen` is not a client-visible flag name of its own"),
    ]
    for okv, txt in checks:
        if okv:
            ctx.ok("R4.1", W, txt)
        else:
            ctx.bad("R4.1", "constants", "<module>", txt, f"flag table relation violated: {txt}", 0)
    rev = p.module_constant("constants", "REV_SYSTEM_FLAG_MAP")
    if isinstance(rev, ast.DictComp) and norm(rev.key) == "v" and norm(rev.value) == "k" and "SYSTEM_FLAG_MAP.items()" in norm(rev):
        ctx.ok("R4.1", W, "REV_SYSTEM_FLAG_MAP is the inverse comprehension of SYSTEM_FLAG_MAP")
    else:
        try:
            r = ast.literal_eval(rev)
            if r == {v: k for k, v in fmap.items()}:
                ctx.ok("R4.1", W, "REV_SYSTEM_FLAG_MAP literal equals the inverse of SYSTEM_FLAG_MAP")
            else:
                ctx.bad("R4.1", "constants", "<module>", "REV_SYSTEM_FLAG_MAP", "REV_SYSTEM_FLAG_MAP is not the inverse of SYSTEM_FLAG_MAP", 0)
        except Exception:
            ctx.bad("R4.1", "constants", "<module>", norm(rev), "REV_SYSTEM_FLAG_MAP is not recognisably the inverse of SYSTEM_FLAG_MAP", 0)
    for fn, table in (("flag_to_seq", "REV_SYSTEM_FLAG_MAP"), ("seq_to_flag", "SYSTEM_FLAG_MAP")):
        fi = p.func(f"constants.{fn}")
        ctx.analysed(fi)
        arg = fi.node.args.args[0].arg
        ret = [s for s in body_walk(fi.node) if isinstance(s, ast.Return)]
        shape = False
        if len(ret) == 1 and isinstance(ret[0].value, ast.IfExp):
            e = ret[0].value
            shape = norm(e.body) == f"{table}[{arg}]" and norm(e.test) == f"{arg} in {table}" and norm(e.orelse) == arg
        elif len(ret) == 1 and isinstance(ret[0].value, ast.Call) and norm(ret[0].value) == f"{table}.get({arg}, {arg})":
            shape = True
        if shape:
            ctx.ok("R4.1", where(fi), f"{fn}: {table}[x] if x in {table} else x")
        else:
            ctx.bad("R4.1", fi.module, fi.qual, norm(ret[0]) if ret else fn, f"{fn} lost its lookup-else-identity shape over {table}", fi.node.lineno)
    return fmap, nons


def r4_2(ctx, fmap, nons):
    p = ctx.p
    fi = p.func("mbox.Mailbox.store")
    g = ctx.cfg(fi)
    rev = {v: k for k, v in fmap.items()}
    # spellings: the system spelling, and the bare sequence name (unknown keywords map to themselves)
    spell = set()
    for f in nons:
        spell.add(f)
        spell.add(rev[f])
    ctx.require("flags" in {a.arg for a in fi.node.args.args}, "Mailbox.store lost its `flags` parameter", anchor=True)
    # where is `flags` rebound to the mapped list?
    remap_line = None
    for s in body_walk(fi.node):
        if isinstance(s, ast.Assign) and any(isinstance(t, ast.Name) and t.id == "flags" for t in s.targets):
            if any(call_name(c) in ("flag_to_seq", "flags_to_seqs") for c in calls_in(s.value)):
                remap_line = s.lineno
    covered = set()
    guards = []
    for s in body_walk(fi.node):
        if isinstance(s, ast.If) and any(isinstance(x, ast.Raise) for x in s.body):
            for cmp_, positive in polarity_atoms(s.test):
                # the raising arm must be the one where the flag *is* in the list
                if isinstance(cmp_, ast.Compare) and len(cmp_.ops) == 1 and ((isinstance(cmp_.ops[0], ast.In) and positive) or (isinstance(cmp_.ops[0], ast.NotIn) and not positive)):
                    l, r = cmp_.left, cmp_.comparators[0]
                    consts = []
                    if isinstance(l, ast.Constant) and isinstance(l.value, str):
                        consts = [l.value]
                    if isinstance(r, ast.Name) and r.id == "flags" and consts:
                        mapped = remap_line is not None and s.lineno > remap_line
                        for c in consts:
                            if mapped:
                                if c in rev.values() or c in fmap:
                                    # test on the mapped list: covers every spelling of that sequence
                                    seqname = c
                                    covered |= {sp for sp in spell if (rev.get(sp, sp) == seqname)}
                            else:
                                covered.add(c)
                        guards.append(s)
            # any(flag_to_seq(x) == "Recent" for x in flags) style
            for c in calls_in(s.test):
                if isinstance(c.func, ast.Name) and c.func.id == "any" and "flag_to_seq" in norm(c) and any(isinstance(k, ast.Constant) and k.value in fmap for k in ast.walk(c)):
                    covered |= spell
                    guards.append(s)
            # set intersection with a constant set
            for sub in ast.walk(s.test):
                if isinstance(sub, (ast.Set, ast.Tuple, ast.List)) and all(isinstance(e, ast.Constant) for e in sub.elts):
                    vals = {e.value for e in sub.elts}
                    if vals & spell and "flags" in norm(s.test):
                        mapped = remap_line is not None and s.lineno > remap_line
                        covered |= ({sp for sp in spell if rev.get(sp, sp) in vals} if mapped else (vals & spell))
                        guards.append(s)
    # the guard(s) must dominate the first mutation
    muts = {n.id for n in g.nodes if n.ast is not None and n.kind == "stmt" and any(call_name(c) in ("_help_add_flag", "_help_remove_flag", "_help_replace_flags") for c in calls_in(n.ast))}
    ctx.require(muts, "Mailbox.store: flag mutation helpers not found")
    for sp in sorted(spell):
        if sp in covered:
            ctx.ok("R4.2", where(fi), f"spelling {sp!r} of the non-settable flag is rejected before any mutation")
        else:
            ctx.bad(
                "R4.2", fi.module, fi.qual, f"spelling {sp!r} not rejected",
                f"STORE with the flag spelled {sp!r} passes the \\Recent guard, is mapped by flag_to_seq to the 'Recent' "
                "sequence and sets/clears \\Recent (e.g. `STORE 1 +FLAGS (Recent)`): a client can change \\Recent",
                guards[0].lineno if guards else fi.node.lineno,
            )
    for gd in guards:
        gnodes = set(g.nodes_for(gd))
        for m in muts:
            w = flow.dominated_by(g, m, lambda n: n in gnodes)
            ctx.paths_explored += 1
            if w:
                ctx.bad("R4.2", fi.module, fi.qual, norm(gd.test), "the \\Recent guard does not dominate the flag mutation", gd.lineno, flow.fmt_path(g, w))


# ----------------------------------------------------------------------------
def _abs_eval_helper(fi, flagval):
    """Effects [(op, seqname)] of a flag helper for a concrete flag value, following
    `match flag` / `if flag == ...` structurally."""
    params = [a.arg for a in fi.node.args.args]
    fname = params[2] if len(params) > 2 else "flag"
    effects = []

    def seq_of(sub):
        s = sub.slice
        if isinstance(s, ast.Constant):
            return s.value
        if isinstance(s, ast.Name) and s.id == fname:
            return flagval
        return None

    def run(stmts):
        for s in stmts:
            if isinstance(s, ast.Expr) and isinstance(s.value, ast.Call):
                c = s.value
                if call_name(c) in ("add", "discard", "remove") and isinstance(call_recv(c), ast.Subscript) and norm(call_recv(c).value) == "self.sequences":
                    effects.append((call_name(c).replace("remove", "discard"), seq_of(call_recv(c))))
            elif isinstance(s, ast.Match) and norm(s.subject) == fname:
                for cs in s.cases:
                    pats = cs.pattern.patterns if isinstance(cs.pattern, ast.MatchOr) else [cs.pattern]
                    hit = False
                    for pt in pats:
                        if isinstance(pt, ast.MatchValue) and isinstance(pt.value, ast.Constant) and pt.value.value == flagval:
                            hit = True
                        if isinstance(pt, ast.MatchAs) and pt.pattern is None:
                            hit = True
                    if hit:
                        run(cs.body)
                        break
            elif isinstance(s, ast.If):
                t = s.test
                val = None
                if isinstance(t, ast.Compare) and len(t.ops) == 1 and norm(t.left) == fname and isinstance(t.comparators[0], ast.Constant):
                    if isinstance(t.ops[0], ast.Eq):
                        val = flagval == t.comparators[0].value
                    elif isinstance(t.ops[0], ast.NotEq):
                        val = flagval != t.comparators[0].value
                if val is True:
                    run(s.body)
                elif val is False:
                    run(s.orelse)
                else:
                    effects.append(("?", norm(t)))
    run(fi.node.body)
    return effects


def r4_3(ctx):
    p = ctx.p
    OTHER = "$Custom"
    expect = {
        "_help_add_flag": {"Seen": {("add", "Seen"), ("discard", "unseen")}, "unseen": {("add", "unseen"), ("discard", "Seen")}, OTHER: {("add", OTHER)}},
        "_help_remove_flag": {"Seen": {("discard", "Seen"), ("add", "unseen")}, "unseen": {("discard", "unseen"), ("add", "Seen")}, OTHER: {("discard", OTHER)}},
    }
    ctx.exhaustive_rules.add("R4.3")
    for fn, table in expect.items():
        fi = p.func(f"mbox.Mailbox.{fn}")
        ctx.analysed(fi)
        for fv, want in table.items():
            got = set(_abs_eval_helper(fi, fv))
            if got == want:
                ctx.ok("R4.3", where(fi), f"flag={fv!r}: effects {sorted(got)}")
            else:
                ctx.bad("R4.3", fi.module, fi.qual, f"flag={fv!r}: {sorted(got)}", f"{fn}({fv!r}) has effects {sorted(got)}, expected {sorted(want)}: \\Seen and the MH `unseen` marker stop being exact complements", fi.node.lineno)
    # replace
    from .common import pm_of

    rp = p.func("mbox.Mailbox._help_replace_flags")
    ctx.analysed(rp)
    pr = pm_of(p, rp)
    base = pr.has("cur_msg_seqs = set(self.msg_sequences(key))") and pr.has("new_msg_seqs = set(flags)")
    has_unseen = base and pr.has("if 'Seen' not in new_msg_seqs:\n    new_msg_seqs.add('unseen')")
    keeps_recent = base and pr.has("if 'Recent' in cur_msg_seqs:\n    new_msg_seqs.add('Recent')")
    removes = adds = discs = base and any(pr.has(x) or pr.has(x.replace("seq2", "seq")) for x in (
        "to_remove = cur_msg_seqs - new_msg_seqs\nfor seq in new_msg_seqs:\n    self.sequences[seq].add(key)\nfor seq2 in to_remove:\n    self.sequences[seq2].discard(key)",
        "to_remove = cur_msg_seqs - new_msg_seqs\nfor seq2 in to_remove:\n    self.sequences[seq2].discard(key)\nfor seq in new_msg_seqs:\n    self.sequences[seq].add(key)",
    ))
    for okv, txt in ((has_unseen, "replace: `unseen` added when Seen is absent"), (keeps_recent, "replace: Recent preserved"), (removes and adds and discs, "replace: new set added, (current - new) removed")):
        if okv:
            ctx.ok("R4.3", where(rp), txt)
        else:
            ctx.bad("R4.3", rp.module, rp.qual, txt, f"_help_replace_flags lost: {txt}", rp.node.lineno)
    # other write sites in mbox.py: a write to sequences["Seen"/"unseen"] must be accompanied, in the same
    # block, by the opposite write on the other sequence for the same key
    sites = 0
    for fi in p.funcs_in("mbox"):
        if fi.name in ("_help_add_flag", "_help_remove_flag", "_help_replace_flags"):
            continue
        par = parmap(fi)
        for c in calls_in(fi.node):
            if call_name(c) not in ("add", "discard", "remove"):
                continue
            r = call_recv(c)
            if not (isinstance(r, ast.Subscript) and isinstance(r.slice, ast.Constant) and r.slice.value in ("Seen", "unseen")):
                continue
            if not isinstance(r.value, (ast.Name, ast.Attribute)):
                continue
            sites += 1
            ctx.analysed(fi)
            other = "unseen" if r.slice.value == "Seen" else "Seen"
            opp = "discard" if call_name(c) == "add" else "add"
            key = norm(c.args[0]) if c.args else ""
            # search the enclosing blocks up to the enclosing loop/function for the opposite operation
            found = False
            cur = c
            while cur in par and not found:
                pr = par[cur]
                for fld in ("body", "orelse"):
                    lst = getattr(pr, fld, None)
                    if isinstance(lst, list) and cur in lst:
                        for s in lst:
                            for c2 in calls_in(s):
                                r2 = call_recv(c2)
                                if call_name(c2) in (opp, "remove" if opp == "discard" else opp) and isinstance(r2, ast.Subscript) and isinstance(r2.slice, ast.Constant) and r2.slice.value == other and norm(r2.value) == norm(r.value) and (norm(c2.args[0]) if c2.args else "") == key:
                                    found = True
                if isinstance(pr, (ast.For, ast.AsyncFor, ast.FunctionDef, ast.AsyncFunctionDef)):
                    break
                cur = pr
            if found:
                ctx.ok("R4.3", where(fi), f"{norm(c, 60)} paired with {opp} on [{other!r}] for the same key")
            else:
                ctx.bad("R4.3", fi.module, fi.qual, norm(c), f"{r.slice.value} is written without the complementary {opp} on {other!r} for the same key: \\Seen and `unseen` diverge", c.lineno)
    ctx.floor("R4.3", sites, 4, "direct Seen/unseen write sites outside the helpers")
    # reconcile: new message keys get Seen iff not unseen (local set form)
    cn = p.func("mbox.Mailbox.check_new_msgs_and_flags")
    okc = False
    for s_ in body_walk(cn.node):
        if not isinstance(s_, ast.If):
            continue
        t_, body_, orelse_ = _canon_if(s_)
        if isinstance(t_, ast.Compare) and isinstance(t_.left, ast.Constant) and t_.left.value == "unseen" and isinstance(t_.ops[0], (ast.In, ast.NotIn)):
            if isinstance(t_.ops[0], ast.NotIn):
                body_, orelse_ = orelse_, body_
            var = norm(t_.comparators[0])
            if any(norm(b) == f"{var}.discard('Seen')" for b in body_) and any(norm(b) == f"{var}.add('Seen')" for b in orelse_):
                okc = True
    if okc:
        ctx.ok("R4.3", where(cn), "reconcile: a new message is Seen exactly when it is not in `unseen`")
    else:
        ctx.bad("R4.3", cn.module, cn.qual, "if 'unseen' in msg_sequences: discard('Seen') else: add('Seen')", "new messages no longer get Seen as the complement of unseen", cn.node.lineno)
    gs = p.func("mbox.Mailbox._get_sequences_update_seen")
    pg = pm_of(p, gs)
    if pg.has("new_seen = set(self.msg_keys) - seq['unseen']") and pg.has("seq['Seen'] = set(new_seen)") and pg.has("seq['Seen'] = set(self.msg_keys)"):
        ctx.ok("R4.3", where(gs), "Seen recomputed as all-keys minus unseen (and all keys when unseen is empty)")
    else:
        ctx.bad("R4.3", gs.module, gs.qual, "Seen = set(msg_keys) - unseen", "_get_sequences_update_seen no longer derives Seen as the complement of unseen", gs.node.lineno)
    # append(): Seen absent => unseen
    ap = p.func("mbox.Mailbox.append")
    if pm_of(p, ap).has("if 'Seen' not in seqs:\n    seqs.append('unseen')"):
        ctx.ok("R4.3", where(ap), "append: `unseen` added when Seen not among the given flags")
    else:
        ctx.bad("R4.3", ap.module, ap.qual, "if 'Seen' not in seqs: seqs.append('unseen')", "APPEND without \\Seen no longer marks the message unseen", ap.node.lineno)


def r4_4(ctx):
    p = ctx.p
    fi = p.func("mbox.Mailbox.store")
    g = ctx.cfg(fi)

    def nodes_calling(name):
        return {n.id for n in g.nodes if n.ast is not None and n.kind in ("stmt", "return") and any(call_name(c) == name for c in calls_in(n.ast))}

    mut = nodes_calling("_help_add_flag") | nodes_calling("_help_remove_flag") | nodes_calling("_help_replace_flags")
    setf = nodes_calling("set_sequences_in_folder")
    com = nodes_calling("commit_to_db")
    disp = nodes_calling("_dispatch_or_pend_notifications")
    ctx.require(mut and setf, "store(): mutation / set_sequences_in_folder not found")
    chain = [("flag mutation", mut, "set_sequences_in_folder", setf), ("set_sequences_in_folder", setf, "commit_to_db", com), ("commit_to_db", com, "_dispatch_or_pend_notifications", disp)]
    for an, a, bn, b in chain:
        if not b:
            ctx.bad("R4.4", fi.module, fi.qual, bn, f"store() never calls {bn}", fi.node.lineno)
            continue
        bad = None
        for x in a:
            w = flow.escapes_without(g, x, lambda n: n in b, [g.exit])
            ctx.paths_explored += 1
            if w:
                bad = w
        if bad:
            ctx.bad("R4.4", fi.module, fi.qual, f"{an} -> {bn}", f"store() can return after {an} without {bn}: the change is not written/committed/announced", g.nodes[bad[0]].line, flow.fmt_path(g, bad))
        else:
            ctx.ok("R4.4", where(fi), f"{an} is followed by {bn} on every normal path")
        # and b must not be reachable *before* a on the way (order): no b-node dominates... simple line-order check
    # set_sequences_in_folder under the mailbox's own mh_sequences_lock
    for c in calls_in(fi.node):
        if call_name(c) == "set_sequences_in_folder":
            locks = [norm(x) for x in in_lock(c, fi, "mh_sequences_lock")]
            if norm(call_recv(c)) in locks:
                ctx.ok("R4.4", where(fi), ".mh_sequences rewritten inside mh_sequences_lock")
            else:
                ctx.bad("R4.4", fi.module, fi.qual, norm(c), ".mh_sequences rewritten outside mh_sequences_lock", c.lineno)
    # notify others only after the commit: no dispatch node can reach a commit node
    for d in disp:
        seen = flow.reach(g, [d], flow.NORMAL)
        if any(c in seen for c in com if c != d):
            ctx.bad("R4.4", fi.module, fi.qual, "dispatch before commit", "other sessions are notified before the change is committed", g.nodes[d].line)
    # the notification list passed to the dispatcher carries dont_notify
    for c in calls_in(fi.node):
        if call_name(c) == "_dispatch_or_pend_notifications":
            if kwarg(c, "dont_notify") is not None and norm(kwarg(c, "dont_notify")) == "dont_notify":
                ctx.ok("R4.4", where(fi), "dispatcher receives dont_notify (issuer is not double-notified)", nontrivial=False)
            else:
                ctx.bad("R4.4", fi.module, fi.qual, norm(c), "store() no longer forwards dont_notify to the dispatcher", c.lineno)


def r4_5(ctx):
    p = ctx.p
    fi = p.func("client.Authenticated.do_store")
    g = ctx.cfg(fi)
    store_calls = [c for c in calls_in(fi.node) if call_name(c) == "store" and "mbox" in norm(call_recv(c))]
    ctx.require(store_calls, "do_store: call of mbox.store not found")
    sc = store_calls[0]
    dn = kwarg(sc, "dont_notify")
    if dn is not None and norm(dn) == "self":
        ctx.ok("R4.5", where(fi), "mbox.store(..., dont_notify=self)")
    else:
        ctx.bad("R4.5", fi.module, fi.qual, norm(sc, 120), "do_store no longer excludes the issuing session from the unsolicited FETCH (it would get the change twice or, with SILENT, at all)", sc.lineno)
    # result variable pushed iff not cmd.silent
    par = parmap(fi)
    stmt = sc
    while not isinstance(stmt, ast.stmt):
        stmt = par[stmt]
    resvar = stmt.targets[0].id if isinstance(stmt, ast.Assign) and isinstance(stmt.targets[0], ast.Name) else None
    ctx.require(resvar, "do_store: result of mbox.store not bound to a name")
    pushes = [c for c in calls_in(fi.node) if call_name(c) == "push" and any(isinstance(a, ast.Starred) and norm(a.value) == resvar or norm(a) == resvar for a in c.args)]
    if not pushes:
        ctx.bad("R4.5", fi.module, fi.qual, f"push(*{resvar})", "do_store never sends the FETCH responses of a non-SILENT STORE to the issuer", fi.node.lineno)
        return
    for pc in pushes:
        tests = []
        cur = pc
        while cur in par:
            pr = par[cur]
            if isinstance(pr, ast.If):
                tests.append((norm(pr.test), cur in pr.body))
            cur = pr
        if ("not cmd.silent", True) in tests or ("cmd.silent", False) in tests:
            ctx.ok("R4.5", where(fi), "FETCH echo pushed exactly under `not cmd.silent`")
        else:
            ctx.bad("R4.5", fi.module, fi.qual, norm(pc), "FETCH echo of STORE is not conditioned on `not cmd.silent`", pc.lineno)
    # parser sets silent from `.silent`
    ps = p.func("parse.IMAPClientCommand._p_store")
    ctx.analysed(ps)
    from .common import pm_of as _pm_of
    ok = _pm_of(p, ps).has("if self._p_simple_string('.silent', silent=True):\n    self.silent = True\nelse:\n    self.silent = False") or _pm_of(p, ps).has("self.silent = bool(self._p_simple_string('.silent', silent=True))") or _pm_of(p, ps).has("self.silent = self._p_simple_string('.silent', silent=True) is not None")
    if ok:
        ctx.ok("R4.5", where(ps), "parser: silent = True iff `.SILENT` suffix present")
    else:
        ctx.bad("R4.5", ps.module, ps.qual, ".silent", "parser no longer sets cmd.silent exactly when `.SILENT` is given", ps.node.lineno)


def r4_6(ctx):
    """Queued (older) notifications are flushed before a STORE/FETCH produces newer flag information."""
    from .common import admission_items

    p = ctx.p
    for m in ("do_store", "do_fetch"):
        fi = p.func(f"client.Authenticated.{m}")
        g = ctx.cfg(fi)
        adm = set()
        for w, c in admission_items(fi):
            adm.update(n for n in g.nodes_for(w) if g.nodes[n].kind == "with_enter")
        flush = {n.id for n in g.nodes if n.ast is not None and n.kind == "stmt" and any(call_name(c) == "send_pending_notifications" for c in calls_in(n.ast))}
        ctx.require(adm, f"{m}: admission not found")
        w = flow.escapes_without(g, g.entry, lambda n: n in flush, adm)
        ctx.paths_explored += 1
        if w:
            ctx.bad("R4.6", fi.module, fi.qual, f"{m}: admission reachable without send_pending_notifications()", f"{m} can reach its operation without first flushing the session's queued notifications: a queued (older) FETCH FLAGS line is then delivered after the newer result of this command and the session's last-reported flags are stale", g.nodes[w[-1]].line, flow.fmt_path(g, w))
        else:
            ctx.ok("R4.6", where(fi), "queued notifications are flushed (or the command refused) on every path before the operation is admitted")


def _through_local(fi, x):
    """A local name that is assigned exactly once in the function stands for the expression it was assigned (a case-folded
    spelling computed once before the loop is the same test as one computed in it)."""
    if isinstance(x, ast.Name):
        defs = [s for s in body_walk(fi.node) if isinstance(s, ast.Assign) and len(s.targets) == 1 and isinstance(s.targets[0], ast.Name) and s.targets[0].id == x.id]
        stores = [n for n in ast.walk(fi.node) if isinstance(n, ast.Name) and n.id == x.id and isinstance(n.ctx, ast.Store)]
        if len(defs) == 1 and len(stores) == 1:
            reads = {n.id for n in ast.walk(defs[0].value) if isinstance(n, ast.Name)}
            later = [n for n in ast.walk(fi.node) if isinstance(n, ast.Name) and n.id in reads and isinstance(n.ctx, ast.Store) and n.lineno > defs[0].lineno]
            if not later:  # nothing the expression reads changes after it was computed
                return defs[0].value
    return x


def r4_7(ctx):
    r"""Case spellings: RFC 3501 flag names are case-insensitive, the server compares them case-sensitively everywhere
    (flag_to_seq, the \Recent guard, SYSTEM_FLAG_MAP).  So the one producer of client flags, _p_flag, must fold every
    case variant of a system flag to the canonical spelling before anything else sees it."""
    p = ctx.p
    fi = p.func("parse.IMAPClientCommand._p_flag")
    ctx.analysed(fi)
    fold = ("lower", "casefold", "upper")
    rets = [n for n in body_walk(fi.node) if isinstance(n, ast.Return) and n.value is not None]
    ctx.floor("R4.7", len(rets), 1, "returns of _p_flag")
    canon = None
    # idiom 1:  for v in SYSTEM_FLAGS: if flag.lower() == v.lower(): return v
    for loop in body_walk(fi.node):
        if isinstance(loop, ast.For) and isinstance(loop.target, ast.Name) and names_in(loop.iter) & {"SYSTEM_FLAGS", "SystemFlags", "REV_SYSTEM_FLAG_MAP"}:
            v = loop.target.id
            for iff in walk_no_nested(loop):
                if isinstance(iff, ast.If) and isinstance(iff.test, ast.Compare) and len(iff.test.ops) == 1 and isinstance(iff.test.ops[0], ast.Eq):
                    sides = [_through_local(fi, x) for x in (iff.test.left, iff.test.comparators[0])]
                    if all(isinstance(x, ast.Call) and call_name(x) in fold and not x.args for x in sides) and call_name(sides[0]) == call_name(sides[1]):
                        recv = {norm(call_recv(x)) for x in sides}
                        if v in recv and len(recv) == 2 and any(isinstance(r_, ast.Return) and norm(r_.value) in (v, f"str({v})", f"{v}.value") for r_ in iff.body):
                            canon = (loop, f"for {v} in {norm(loop.iter)}: case-folded comparison returns the canonical spelling")
    # idiom 2:  return TABLE.get(flag.lower(), flag)
    for r_ in rets:
        c = r_.value
        if isinstance(c, ast.Call) and call_name(c) == "get" and len(c.args) == 2 and isinstance(c.args[0], ast.Call) and call_name(c.args[0]) in fold and norm(call_recv(c.args[0])) == norm(c.args[1]):
            canon = (r_, f"{norm(c)}: table lookup by case-folded name")
    if canon is None:
        ctx.bad(
            "R4.7", fi.module, fi.qual, "no case folding of system flags",
            "flags are compared case-sensitively everywhere downstream, and _p_flag hands on the client's spelling: "
            "`STORE 1 +FLAGS (\\seen)` creates a second flag `\\seen` beside \\Seen (FETCH FLAGS and SEARCH SEEN disagree) and "
            "`STORE 1 +FLAGS (\\RECENT)` passes the \\Recent guard",
            fi.node.lineno,
        )
        return
    node, how = canon
    # every raw return of the flag comes after the canonicalisation in the same statement list (or is the canonical one)
    par = parmap(fi)
    body = fi.node.body
    top = node
    while par.get(top) is not fi.node and top in par:
        top = par[top]
    bad = []
    for r_ in rets:
        t = r_
        while par.get(t) is not fi.node and t in par:
            t = par[t]
        if t is top or r_ is node:
            continue
        if body.index(t) < body.index(top):
            bad.append(r_)
    if bad:
        ctx.bad("R4.7", fi.module, fi.qual, norm(bad[0]), "a flag is returned before system flags were folded to their canonical spelling", bad[0].lineno)
    else:
        ctx.ok("R4.7", where(fi), how)


def r4_8(ctx):
    """Shape of Mailbox.store(): each StoreAction arm reaches the helper that implements it, for the key of the loop; for
    every key one FETCH line is generated, queued for the other sessions and returned to the issuer (UID form for UID STORE)."""
    from .common import pm_of

    p = ctx.p
    fi = p.func("mbox.Mailbox.store")
    ctx.analysed(fi)
    # (a) action -> helper
    want = {"ADD_FLAGS": "_help_add_flag", "REMOVE_FLAGS": "_help_remove_flag", "REPLACE_FLAGS": "_help_replace_flags"}
    got: dict[str, set[str]] = {}
    for m in [n for n in body_walk(fi.node) if isinstance(n, ast.Match) and norm(n.subject) == "action"]:
        for c in m.cases:
            pats = c.pattern.patterns if isinstance(c.pattern, ast.MatchOr) else [c.pattern]
            names = [pt.value.attr for pt in pats if isinstance(pt, ast.MatchValue) and isinstance(pt.value, ast.Attribute)]
            if len(names) != 1:
                continue  # the outer ADD|REMOVE arm only wraps the inner dispatch
            helpers = {call_name(x) for st in c.body for x in calls_in(st) if call_name(x) in want.values()}
            got.setdefault(names[0], set()).update(helpers)
    for iff in [n for n in body_walk(fi.node) if isinstance(n, ast.If)]:
        for a, pos in polarity_atoms(iff.test):
            if isinstance(a, ast.Compare) and norm(a.left) == "action" and isinstance(a.ops[0], ast.Eq) and pos and isinstance(a.comparators[0], ast.Attribute):
                helpers = {call_name(x) for st in iff.body for x in calls_in(st) if call_name(x) in want.values()}
                got.setdefault(a.comparators[0].attr, set()).update(helpers)
    for act, helper in want.items():
        if got.get(act) == {helper}:
            ctx.ok("R4.8", where(fi), f"StoreAction.{act} -> {helper}()")
        else:
            ctx.bad("R4.8", fi.module, fi.qual, f"StoreAction.{act} -> {sorted(got.get(act, []))}", f"STORE with action {act} does not reach (only) {helper}(): the flags are not changed, or changed the wrong way", fi.node.lineno)
    # helpers are applied to the loop key
    for c in calls_in(fi.node):
        if call_name(c) in want.values() and c.args:
            loops = [l for l in body_walk(fi.node) if isinstance(l, ast.For) and any(x is c for x in ast.walk(l))]
            keys = {norm(l.target) for l in loops}
            if norm(c.args[0]) in keys:
                ctx.ok("R4.8", where(fi), f"{norm(c, 50)} applied to the message key of the loop", nontrivial=False)
            else:
                ctx.bad("R4.8", fi.module, fi.qual, norm(c, 80), "a flag helper is applied to something other than the message key the loop is at", c.lineno)
    # (b) reporting
    pm = pm_of(p, fi)
    checks = [
        (pm.has("fetch, fetch_uid = self._generate_fetch_msg_for(key, publish_uid=uid_cmd)"), "one FETCH line per key, in plain and UID form (publish_uid follows uid_cmd)"),
        (pm.has("notifications.append(fetch)"), "the plain form is queued for the other sessions"),
        (pm.has("if uid_cmd:\n    response.append(fetch_uid)\nelse:\n    response.append(fetch)"), "the issuer gets the UID form for UID STORE, the plain form otherwise"),
        (pm.has("await self._dispatch_or_pend_notifications(notifications, dont_notify=dont_notify)"), "the queued lines are dispatched to every session but the issuer"),
        (pm.has("return response"), "the issuer's lines are returned"),
    ]
    for okv, what in checks:
        if okv:
            ctx.ok("R4.8", where(fi), what)
        else:
            ctx.bad("R4.8", fi.module, fi.qual, what, f"store() lost: {what} - a flag change is not reported to the issuing session / the other sessions as STORE requires", fi.node.lineno)


def r4_9(ctx):
    """Shape of Mailbox.append(): the message gets exactly the flags the client gave (through the one flag->sequence map),
    `unseen` exactly when \\Seen is absent, \\Recent, the internal date the client gave, and the UID looked up for the key
    that was just added is what is returned (APPENDUID)."""
    from .common import pm_of

    p = ctx.p
    fi = p.func("mbox.Mailbox.append")
    ctx.analysed(fi)
    pm = pm_of(p, fi)
    checks = [
        (pm.has("seqs = flags_to_seqs(flags)"), "flags mapped through flags_to_seqs", "APPEND no longer maps the client's flags through the flag<->sequence table"),
        (pm.has("if 'Seen' not in seqs:\n    seqs.append('unseen')"), "`unseen` added exactly when \\Seen was not given", "APPEND no longer marks a message `unseen` exactly when \\Seen is absent: \\Seen and the MH unseen marker stop being complements"),
        (pm.has("msg_key = int(self.mailbox.add(msg))"), "message added to the folder, its key kept", "the key of the appended message is not the one the folder assigned"),
        (pm.has("self.sequences['Recent'].add(msg_key)"), "appended message is \\Recent", "an appended message is no longer \\Recent"),
        (pm.has("for seq in seqs:\n    self.sequences[seq].add(msg_key)"), "every given flag is set on the new key", "the flags given with APPEND are not set on the new message"),
        (pm.has("self.set_sequences_in_folder(self.sequences)"), ".mh_sequences rewritten", "APPEND no longer writes the new flags to .mh_sequences"),
        (pm.has("if date_time:\n    mtime = date_time.timestamp()\n    await utime(mbox_msg_path(self.mailbox, msg_key), (mtime, mtime))"), "internal date = the date-time given (file mtime of the new key)", "the internal date given with APPEND is not stored on the new message"),
        (pm.has("uid_vv, uid = self.get_uid_from_msg(msg_key)") and pm.has("return uid"), "returns the UID of the key it added", "APPEND no longer returns the UID of the message it added (APPENDUID names another message / nothing)"),
    ]
    for okv, okmsg, badmsg in checks:
        if okv:
            ctx.ok("R4.9", where(fi), okmsg)
        else:
            ctx.bad("R4.9", fi.module, fi.qual, okmsg, badmsg, fi.node.lineno)


def r4_10(ctx):
    """Shape of FETCH's implicit flag changes (arm-exact): \\Seen is set exactly by a BODY fetch that is not PEEK, \\Recent is
    cleared exactly by a FLAGS fetch, both only for messages that had the flag state to change, never in a read-only session;
    memory and the re-read .mh_sequences are changed alike (Seen/unseen as complements); every changed message is announced
    to the sessions with its complete flag list."""
    from .common import pm_of

    p = ctx.p
    fi = p.func("mbox.Mailbox.fetch")
    ctx.analysed(fi)
    pm = pm_of(p, fi)
    checks = [
        ("if elt.attribute == 'body' and elt.peek is False:\n    fetched_body_seen = True", "implicit \\Seen is triggered exactly by BODY without PEEK"),
        ("if elt.attribute == 'flags':\n    fetched_flags = True", "\\Recent is dropped exactly by a FLAGS fetch"),
        ("if fetched_flags:\n    if msg_key in self.sequences['Recent']:\n        no_longer_recent_msgs.add(msg_key)", "only messages that are \\Recent are queued for losing it"),
        ("if fetched_body_seen:\n    if msg_key in self.sequences['unseen']:\n        no_longer_unseen_msgs.add(msg_key)", "only unseen messages are queued for becoming \\Seen"),
        ("if (no_longer_unseen_msgs or no_longer_recent_msgs) and (not read_only):\n    ...", "flag changes are applied only when there is one and the session is not read-only"),
        (("notifies_for = no_longer_unseen_msgs | no_longer_recent_msgs",
          "notifies = [self._generate_fetch_msg_for(msg_key)[0] for msg_key in no_longer_unseen_msgs | no_longer_recent_msgs]",
          "for msg_key in no_longer_unseen_msgs | no_longer_recent_msgs:\n    ..."), "every changed message is announced"),
        ("for msg_key in no_longer_recent_msgs:\n    self.sequences['Recent'].discard(msg_key)\n    seqs['Recent'].discard(msg_key)", "\\Recent cleared in memory and in the file's sequences alike"),
        ("for msg_key in no_longer_unseen_msgs:\n    self.sequences['unseen'].discard(msg_key)\n    seqs['unseen'].discard(msg_key)\n    if msg_key not in self.sequences['Seen']:\n        self.sequences['Seen'].add(msg_key)\n        seqs['Seen'].add(msg_key)", "unseen dropped and Seen added together, in memory and file"),
        # (built in place, or by the helper every other flag notification comes from - R4.8 pins that helper)
        (("flags = []\nfor sequence in self.sequences.keys():\n    if msg_key in self.sequences[sequence]:\n        flags.append(seq_to_flag(sequence))",
          "notifies = [self._generate_fetch_msg_for(msg_key)[0] for msg_key in no_longer_unseen_msgs | no_longer_recent_msgs]",
          "notifies.append(self._generate_fetch_msg_for(msg_key)[0])"), "the announced flag list holds exactly the sequences the message is in"),
        (("flags_str = ' '.join(flags)\nmsg_seq_number = self._msg_key_to_idx[msg_key] + 1\nnotifies.append(f'* {msg_seq_number} FETCH (FLAGS ({flags_str}))\\r\\n')",
          "notifies = [self._generate_fetch_msg_for(msg_key)[0] for msg_key in no_longer_unseen_msgs | no_longer_recent_msgs]",
          "notifies.append(self._generate_fetch_msg_for(msg_key)[0])"), "announced under the message's sequence number, with that flag list"),
        ("await self._dispatch_or_pend_notifications(notifies)", "announced to every session through the ordered channel"),
    ]
    for pat, what in checks:
        if any(pm.has(x) for x in (pat if isinstance(pat, tuple) else (pat,))):
            ctx.ok("R4.10", where(fi), what)
        else:
            ctx.bad("R4.10", fi.module, fi.qual, what, f"FETCH's implicit flag handling lost: {what}", fi.node.lineno)


def r4_12(ctx):
    """The one helper every unsolicited `* n FETCH (FLAGS (...))` line comes from (STORE's answers, the resync's
    announcements, FETCH's implicit flag changes): the flag list is the IMAP spelling of exactly the sequences the message
    key is in (`seqs_to_flags(self.msg_sequences(key))`), the number is the key's position + 1, and both returned lines carry
    that number and that list - the second with the UID of the same position."""
    from .common import pm_of

    p = ctx.p
    fi = p.func("mbox.Mailbox._generate_fetch_msg_for")
    ctx.analysed(fi)
    pm = pm_of(p, fi)
    checks = [
        (("flags_str = ' '.join(seqs_to_flags(self.msg_sequences(msg_key)))",), "flag list = seqs_to_flags(msg_sequences(key))", "the flag list of an unsolicited FETCH is no longer the IMAP spelling of the sequences the message is in"),
        (("msg_seq_number = self._msg_key_to_idx[msg_key] + 1",), "sequence number = position of the key + 1", "the unsolicited FETCH is numbered with something other than the key's position + 1: sessions are told of a flag change on another message"),
        (("uidstr = f' UID {self.uids[msg_seq_number - 1]}'",), "UID taken at the same position", "the UID in the unsolicited FETCH is not the one at the message's position"),
        (("return (f'* {msg_seq_number} FETCH (FLAGS ({flags_str}))\\r\\n', f'* {msg_seq_number} FETCH (FLAGS ({flags_str}){uidstr})\\r\\n')",), "both lines: `* n FETCH (FLAGS (list)[ UID u])`", "the unsolicited FETCH lines are no longer `* <n> FETCH (FLAGS (<list>)[ UID <u>])` built from the number and list computed above"),
    ]
    # a helper of the class that the function calls may hold a piece (the UID look-up with its IndexError handler)
    helpers = [pm_of(p, p.functions[f"mbox.Mailbox.{call_name(c)}"]) for c in calls_in(fi.node) if isinstance(c.func, ast.Attribute) and norm(c.func.value) == "self" and f"mbox.Mailbox.{call_name(c)}" in p.functions and call_name(c) not in ("msg_sequences",)]
    def _lines_ok() -> bool:
        """return (f'* {n} FETCH (FLAGS ({flags}))CRLF', f'* {n} FETCH (FLAGS ({flags})<uid part>)CRLF') with the n / flags above"""
        from ..astutil import fstring_parts, merge_consts
        for r in [x for x in body_walk(fi.node) if isinstance(x, ast.Return) and isinstance(x.value, ast.Tuple) and len(x.value.elts) == 2]:
            a, b = (merge_consts(fstring_parts(e) or []) for e in r.value.elts)
            def head(pp):
                return len(pp) >= 4 and pp[0] == "* " and norm(pp[1]) == (pm.name("msg_seq_number") or "msg_seq_number") and pp[2] == " FETCH (FLAGS (" and norm(pp[3]) == (pm.name("flags_str") or "flags_str")
            if head(a) and head(b) and len(a) == 5 and a[4] == "))\r\n" and len(b) == 7 and b[4] == ")" and not isinstance(b[5], str) and b[6] == ")\r\n":
                return True
        return False

    for pats, okmsg, badmsg in checks:
        if ("return (" in pats[0] and _lines_ok()) or any(pm.has(x) for x in pats) or ("UID" in pats[0] and "return" not in pats[0] and any(h.has("return f' UID {self.uids[n - 1]}'") or h.has("uidstr = f' UID {self.uids[n - 1]}'") for h in helpers)):
            ctx.ok("R4.12", where(fi), okmsg)
        else:
            ctx.bad("R4.12", fi.module, fi.qual, pats[0], badmsg, fi.node.lineno)


def r4_11(ctx):
    """Flags are stored as MH sequences: one `name: numbers` line per flag in .mh_sequences.  The name part is whatever the
    client's keyword is (system flags are mapped to fixed names).  The pattern the parser reads a keyword with admits `:`
    (it is an atom character), and a sequence name with a `:` in it makes the line unparsable for the MH reader: after
    `STORE 1 +FLAGS (a:b)` every command that reads the folder's sequences fails.  So between the atom the parser read and
    the name that is written there is a refusal (or an escape) of `:`."""
    from .. import regexlang as rl
    p = ctx.p
    fi = p.func("parse.IMAPClientCommand._p_flag")
    ctx.analysed(fi)
    atom = p.module_constant("parse", "_atom_re")
    src = None
    if isinstance(atom, ast.Call) and atom.args and isinstance(atom.args[0], ast.Name):
        atom = p.module_constant("parse", atom.args[0].id)  # _atom_re = re.compile(_atom)
    if isinstance(atom, ast.Call) and atom.args and isinstance(atom.args[0], ast.Constant):
        src = atom.args[0].value
    elif isinstance(atom, ast.Constant):
        src = atom.value
    ctx.require(src is not None, "parse._atom_re is not a constant pattern", anchor=True)
    src = src.decode("latin-1") if isinstance(src, bytes) else src
    admits = rl.can_match_char(src, ":")
    guarded = False
    for n in body_walk(fi.node):
        if isinstance(n, ast.If) and any(isinstance(x, ast.Constant) and x.value == ":" for x in ast.walk(n.test)) and any(isinstance(x, ast.Raise) for st in n.body for x in ast.walk(st)):
            guarded = True
    mapped = any(call_name(c) in ("replace", "translate", "quote", "escape") and any(isinstance(a, ast.Constant) and a.value == ":" for a in c.args) for c in calls_in(fi.node))
    fs = p.functions.get("utils.flag_to_seq") or p.functions.get("constants.flag_to_seq")
    if fs is not None:
        mapped = mapped or any(call_name(c) in ("replace", "translate") and any(isinstance(a, ast.Constant) and a.value == ":" for a in c.args) for c in calls_in(fs.node))
    if not admits:
        ctx.ok("R4.11", where(fi), "the keyword pattern does not admit ':'")
    elif guarded or mapped:
        ctx.ok("R4.11", where(fi), "a keyword containing ':' is refused (or escaped) before it can become an MH sequence name")
    else:
        ctx.bad("R4.11", fi.module, fi.qual, "flag keyword may contain ':'", "the parser hands on a flag keyword that contains `:` (an atom character) and nothing refuses or escapes it before it becomes the name of an MH sequence: `STORE 1 +FLAGS (a:b)` writes the line `a:b: 1` to .mh_sequences, which the MH reader rejects - every later command that reads the folder's flags fails, for every session", fi.node.lineno)
    # ... and the MH library writes .mh_sequences as ASCII: a keyword with a character above 0x7f (the pattern admits them, the
    # command is decoded as latin-1) enters the in-memory sequences, the write raises UnicodeEncodeError, and every later
    # rewrite of that mailbox's sequences fails the same way.  ATOM-CHAR has no 8-bit characters: the parser refuses them.
    admits8 = rl.can_match_char(src, "\xe9")
    guarded8 = False
    for n in body_walk(fi.node):
        if isinstance(n, ast.If) and any(isinstance(x, ast.Raise) for st in n.body for x in ast.walk(st)):
            t = norm(n.test)
            if "isascii()" in t and atom_polarity(n.test, lambda x: isinstance(x, ast.Call) and call_name(x) == "isascii") is False:
                guarded8 = True
        if isinstance(n, ast.Try) and any(call_name(c) == "encode" and c.args and isinstance(c.args[0], ast.Constant) and str(c.args[0].value).lower().replace("-", "") in ("ascii", "usascii") for st in n.body for c in calls_in(st)):
            if any(any(isinstance(x, ast.Raise) for x in ast.walk(h)) for h in n.handlers):
                guarded8 = True
    if not admits8:
        ctx.ok("R4.11", where(fi), "the keyword pattern does not admit 8-bit characters")
    elif guarded8:
        ctx.ok("R4.11", where(fi), "a keyword with 8-bit characters is refused before it can become an MH sequence name")
    else:
        ctx.bad("R4.11", fi.module, fi.qual, "flag keyword may contain 8-bit characters", "the parser hands on a flag keyword with characters above 0x7f and nothing refuses it before it becomes the name of an MH sequence: `STORE 2 +FLAGS (caf\\xe9)` changes the in-memory flags, the ASCII write of .mh_sequences raises, and from then on every command that rewrites that mailbox's flags fails for every session", fi.node.lineno)


def run(ctx):
    ctx.do(r4_7)
    ctx.do(r4_6)
    res = ctx.do(r4_1)
    if res is None:
        return
    fmap, nons = res
    ctx.do(r4_2, fmap, nons)
    ctx.do(r4_3)
    ctx.do(r4_4)
    ctx.do(r4_5)
    ctx.do(r4_8)
    ctx.do(r4_9)
    ctx.do(r4_10)
    from . import c10, c16
    ctx.do(c16.r16_2)
    from . import c12
    ctx.do(c12.r12_5)
    ctx.do(c10.r10_4_units, modules=("mbox", "client"))
    from . import c05 as _c05
    ctx.do(_c05.r5_3)  # an expunged message's key leaves every flag set (or the next message with that key inherits them)
    ctx.do(r4_11)
    ctx.do(r4_12)
    from . import c15 as _c15b
    ctx.do(_c15b.r15_4)  # STORE addresses exactly the messages its set denotes
    from . import c03 as _c03p
    ctx.do(_c03p.r3_5)  # a pack renumbers the messages: the flag table is re-read with the keys
    from . import c13 as _c13g
    ctx.do(_c13g.r13_9)  # a delivered message does not inherit the flags of the key it re-uses
    from . import c17 as _c17f
    ctx.do(_c17f.r17_15)  # RENAME INBOX carries the flags with the messages
