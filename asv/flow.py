"""Path queries over asv.cfg graphs."""
from __future__ import annotations

import ast
from collections import deque
from typing import Callable, Iterable

from .cfg import CFG, Edge

NORMAL = {"next", "true", "false", "case", "nomatch", "return", "break", "continue"}
EXC = {"exc", "catch", "uncaught"}
EXC_BASE = {"uncaught_base"}
ALL = NORMAL | EXC | EXC_BASE


def reach(
    g: CFG,
    srcs: Iterable[int],
    labels: set[str] = NORMAL,
    avoid: Callable[[int], bool] | set[int] | None = None,
    edge_ok: Callable[[Edge], bool] | None = None,
    forward: bool = True,
) -> dict[int, Edge | None]:
    """BFS; returns {node: edge it was first reached by} (None for sources).

    Nodes for which `avoid` holds are never entered (sources are always kept).
    """
    if avoid is None:
        av = lambda n: False  # noqa: E731
    elif callable(avoid):
        av = avoid
    else:
        avs = set(avoid)
        av = lambda n: n in avs  # noqa: E731
    seen: dict[int, Edge | None] = {}
    dq = deque()
    for s in srcs:
        if s not in seen:
            seen[s] = None
            dq.append(s)
    adj = g.out if forward else g.inc
    while dq:
        n = dq.popleft()
        for e in adj[n]:
            if e.label not in labels:
                continue
            if edge_ok is not None and not edge_ok(e):
                continue
            m = e.dst if forward else e.src
            if m in seen or av(m):
                continue
            seen[m] = e
            dq.append(m)
    return seen


def path_to(g: CFG, seen: dict[int, Edge | None], target: int, forward: bool = True) -> list[int]:
    out = [target]
    cur = target
    while seen.get(cur) is not None:
        e = seen[cur]
        cur = e.src if forward else e.dst
        out.append(cur)
    out.reverse()
    return out


def fmt_path(g: CFG, path: list[int], maxn: int = 14) -> str:
    parts = []
    for nid in path:
        n = g.nodes[nid]
        if n.kind in ("join",):
            continue
        parts.append(f"{n.kind}@{n.line}")
    if len(parts) > maxn:
        parts = parts[: maxn // 2] + ["..."] + parts[-maxn // 2 :]
    return " -> ".join(parts)


def escapes_without(
    g: CFG,
    src: int,
    must: Callable[[int], bool],
    targets: Iterable[int],
    labels: set[str] = NORMAL,
    edge_ok: Callable[[Edge], bool] | None = None,
) -> list[int] | None:
    """Is there a path src ->* t (t in targets) that never visits a `must` node
    (src itself excluded)?  Returns the witness path or None."""
    seen = reach(g, [src], labels, avoid=must, edge_ok=edge_ok)
    for t in targets:
        if t in seen and t != src:
            return path_to(g, seen, t)
    return None


def dominated_by(
    g: CFG, node: int, pred: Callable[[int], bool], labels: set[str] = NORMAL
) -> list[int] | None:
    """Every path entry ->* node passes a `pred` node?  Returns a witness path
    that avoids every pred node, or None if dominated."""
    seen = reach(g, [g.entry], labels, avoid=pred)
    if node in seen:
        return path_to(g, seen, node)
    return None


# ----------------------------------------------------------------------------
# predicate-sensitive search


def cond_facts(cond: tuple | None, classify: Callable[[ast.AST], str | None]) -> list[tuple[str, bool]]:
    """Facts (key, truth) implied by taking an edge with this condition."""
    if cond is None:
        return []
    expr, pol = cond[0], cond[-1]
    if not isinstance(expr, ast.AST) or not isinstance(pol, bool):
        return []
    out: list[tuple[str, bool]] = []

    def go(e: ast.AST, p: bool) -> None:
        if isinstance(e, ast.UnaryOp) and isinstance(e.op, ast.Not):
            go(e.operand, not p)
            return
        if isinstance(e, ast.BoolOp):
            if isinstance(e.op, ast.And) and p:
                for v in e.values:
                    go(v, True)
                return
            if isinstance(e.op, ast.Or) and not p:
                for v in e.values:
                    go(v, False)
                return
            return
        k = classify(e)
        if k is None and isinstance(e, ast.Compare) and len(e.ops) == 1 and isinstance(e.ops[0], (ast.NotEq, ast.NotIn, ast.IsNot, ast.LtE, ast.GtE)):
            # `a is not b` is `not (a is b)`: classify the positive spelling
            pos = {ast.NotEq: ast.Eq, ast.NotIn: ast.In, ast.IsNot: ast.Is, ast.LtE: ast.Gt, ast.GtE: ast.Lt}[type(e.ops[0])]
            go(ast.copy_location(ast.Compare(left=e.left, ops=[pos()], comparators=e.comparators), e), not p)
            return
        if k is not None:
            if k.startswith("!"):
                out.append((k[1:], not p))
            else:
                out.append((k, p))

    go(expr, pol)
    return out


_POS = {ast.NotEq: ast.Eq, ast.NotIn: ast.In, ast.IsNot: ast.Is, ast.LtE: ast.Gt, ast.GtE: ast.Lt}


def cond_fact_alternatives(cond: tuple | None, classify: Callable[[ast.AST], str | None], cap: int = 64) -> list[list[tuple[str, bool]]]:
    """The facts implied by taking an edge, in disjunctive normal form: a list of alternatives, each a consistent list of
    (key, truth).  `a and b` taken false is `a false` or `a true, b false` (exactly the short-circuit evaluation), so a
    flattened guard `if p() and not q: raise` gives the same facts as the nested `if p(): if not q: raise`."""
    if cond is None:
        return [[]]
    expr, pol = cond[0], cond[-1]
    if not isinstance(expr, ast.AST) or not isinstance(pol, bool):
        return [[]]

    def conj(a, b):
        out = []
        for x in a:
            for y in b:
                d = dict(x)
                ok = True
                for k, v in y:
                    if d.get(k, v) != v:
                        ok = False
                        break
                    d[k] = v
                if ok:
                    out.append(sorted(d.items()))
        return out[:cap]

    def go(e, p):
        if isinstance(e, ast.UnaryOp) and isinstance(e.op, ast.Not):
            return go(e.operand, not p)
        if isinstance(e, ast.BoolOp):
            all_way = (isinstance(e.op, ast.And) and p) or (isinstance(e.op, ast.Or) and not p)
            if all_way:
                acc = [[]]
                for v in e.values:
                    acc = conj(acc, go(v, p))
                return acc
            # the operands before the deciding one evaluated the other way
            out = []
            prefix = [[]]
            for v in e.values:
                out.extend(conj(prefix, go(v, p)))
                prefix = conj(prefix, go(v, not p))
            return out[:cap]
        k = classify(e)
        if k is None and isinstance(e, ast.Compare) and len(e.ops) == 1 and type(e.ops[0]) in _POS:
            return go(ast.copy_location(ast.Compare(left=e.left, ops=[_POS[type(e.ops[0])]()], comparators=e.comparators), e), not p)
        if k is None:
            return [[]]
        return [[(k[1:], not p)]] if k.startswith("!") else [[(k, p)]]

    return go(expr, pol)


def feasible_paths_exist(
    g: CFG,
    src: int,
    targets: set[int],
    classify: Callable[[ast.AST], str | None],
    initial: dict[str, bool] | None = None,
    labels: set[str] = NORMAL,
    avoid: Callable[[int], bool] | None = None,
    kills: Callable[[int], set[str]] | None = None,
    accept: Callable[[int, dict], bool] | None = None,
    gens: Callable[[int], dict[str, bool]] | None = None,
    limit: int = 200000,
) -> tuple[list[int], dict] | None:
    """Search over (node, facts) for a path src ->* target consistent with the
    facts collected on the way.  `kills(node)` names fact keys invalidated by a
    node (assignment to the tested variable).  `accept(target, facts)` filters
    target states.  Returns (path, facts) of the first hit or None."""
    init = dict(initial or {})
    if gens is not None:
        init.update(gens(src))
    start = (src, frozenset(init.items()))
    seen = {start: None}
    dq = deque([start])
    steps = 0
    while dq:
        state = dq.popleft()
        steps += 1
        if steps > limit:
            raise RuntimeError("feasible_paths_exist: state limit exceeded")
        n, facts = state
        fd = dict(facts)
        if n in targets and n != src and (accept is None or accept(n, fd)):
            path = []
            cur = state
            while cur is not None:
                path.append(cur[0])
                cur = seen[cur]
            path.reverse()
            return path, fd
        for e in g.out[n]:
            if e.label not in labels:
                continue
            m = e.dst
            if avoid is not None and avoid(m):
                continue
            for alt in cond_fact_alternatives(e.cond, classify):
                nf = dict(fd)
                ok = True
                for k, v in alt:
                    if k in nf and nf[k] != v:
                        ok = False
                        break
                    nf[k] = v
                if not ok:
                    continue
                if kills is not None:
                    for k in kills(m):
                        nf.pop(k, None)
                if gens is not None:
                    nf.update(gens(m))
                st = (m, frozenset(nf.items()))
                if st not in seen:
                    seen[st] = state
                    dq.append(st)
    return None


def facts_at(
    g: CFG,
    nid: int,
    classify: Callable[[ast.AST], str | None],
    labels: set[str] = NORMAL,
    kills: Callable[[int], set[str]] | None = None,
    gens: Callable[[int], dict[str, bool]] | None = None,
    limit: int = 200000,
) -> dict[str, bool]:
    """Facts that hold on *every* feasible path from the entry to `nid` (intersection over the fact sets with which the node
    is reached): the branch conditions that dominate it, as far as `classify` names them."""
    start = (g.entry, frozenset((gens(g.entry) if gens else {}).items()))
    seen = {start}
    dq = deque([start])
    arriving: list[frozenset] = []
    steps = 0
    while dq:
        n, facts = dq.popleft()
        steps += 1
        if steps > limit:
            raise RuntimeError("facts_at: state limit exceeded")
        if n == nid:
            arriving.append(facts)
            continue
        fd = dict(facts)
        for e in g.out[n]:
            if e.label not in labels:
                continue
            for alt in cond_fact_alternatives(e.cond, classify):
                nf = dict(fd)
                ok = True
                for k, v in alt:
                    if k in nf and nf[k] != v:
                        ok = False
                        break
                    nf[k] = v
                if not ok:
                    continue
                if kills is not None:
                    for k in kills(e.dst):
                        nf.pop(k, None)
                if gens is not None:
                    nf.update(gens(e.dst))
                st = (e.dst, frozenset(nf.items()))
                if st not in seen:
                    seen.add(st)
                    dq.append(st)
    if not arriving:
        return {}
    common = set(arriving[0])
    for a in arriving[1:]:
        common &= set(a)
    return dict(common)


def const_bool_gens(g: CFG) -> Callable[[int], dict[str, bool]]:
    """Facts generated by `name = True/False` assignments (keyed by the name)."""

    def gens(nid: int) -> dict[str, bool]:
        n = g.nodes[nid]
        a = n.ast
        if n.kind == "stmt" and isinstance(a, ast.Assign) and len(a.targets) == 1 and isinstance(a.targets[0], ast.Name):
            if isinstance(a.value, ast.Constant) and isinstance(a.value.value, bool):
                return {a.targets[0].id: a.value.value}
        return {}

    return gens


def name_kills(g: CFG, names: set[str]) -> Callable[[int], set[str]]:
    """Non-constant assignments to tracked names invalidate the fact."""

    def kills(nid: int) -> set[str]:
        n = g.nodes[nid]
        a = n.ast
        out: set[str] = set()
        if n.kind in ("stmt", "iter") and a is not None:
            tgts = []
            if isinstance(a, ast.Assign):
                tgts = a.targets
            elif isinstance(a, (ast.AugAssign, ast.AnnAssign)):
                tgts = [a.target]
            for t in tgts:
                for x in ast.walk(t):
                    if isinstance(x, ast.Name) and x.id in names:
                        if not (isinstance(a, ast.Assign) and isinstance(a.value, ast.Constant) and isinstance(a.value.value, bool)):
                            out.add(x.id)
        return out

    return kills


def name_classify(names: set[str]) -> Callable[[ast.AST], str | None]:
    def classify(e: ast.AST) -> str | None:
        if isinstance(e, ast.Name) and e.id in names:
            return e.id
        return None

    return classify
