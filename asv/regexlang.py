"""Facts about regular-expression languages via re._parser (no matching is run)."""
from __future__ import annotations

import re

try:  # Python 3.11+
    import re._parser as sre_parse  # type: ignore
    import re._constants as sre_c  # type: ignore
except ImportError:  # pragma: no cover
    import sre_parse  # type: ignore
    import sre_constants as sre_c  # type: ignore


def parse(pattern: str, flags: int = 0):
    return sre_parse.parse(pattern, flags)


def min_width(pattern: str) -> int:
    return parse(pattern).getwidth()[0]


def max_width(pattern: str) -> int:
    """Upper bound of the match length (MAXREPEAT-sized when a repeat is unbounded)."""
    return int(parse(pattern).getwidth()[1])


def group_max_width(pattern: str, group) -> int | None:
    sub = group_sub(pattern, group)
    if sub is None:
        return None
    return int(sub.getwidth()[1])


def _digits_only(sub) -> bool:
    for op, av in sub:
        name = str(op)
        if name == "IN":
            for iop, iav in av:
                if str(iop) == "CATEGORY" and str(iav) == "CATEGORY_DIGIT":
                    continue
                if str(iop) == "LITERAL" and chr(iav).isdigit():
                    continue
                if str(iop) == "RANGE" and chr(iav[0]).isdigit() and chr(iav[1]).isdigit():
                    continue
                return False
        elif name == "LITERAL":
            if not chr(av).isdigit():
                return False
        elif name in ("MAX_REPEAT", "MIN_REPEAT"):
            if not _digits_only(av[2]):
                return False
        elif name == "SUBPATTERN":
            if not _digits_only(av[3]):
                return False
        elif name == "BRANCH":
            if not all(_digits_only(b) for b in av[1]):
                return False
        else:
            return False
    return True


def digits_only(pattern: str) -> bool:
    """L(pattern) is a subset of [0-9]* and min width >= 1."""
    try:
        p = parse(pattern)
    except Exception:
        return False
    return _digits_only(p) and p.getwidth()[0] >= 1


def group_sub(pattern: str, group) -> object | None:
    """Sub-pattern of a numbered or named group."""
    p = parse(pattern)
    idx = group
    if isinstance(group, str):
        idx = p.state.groupdict.get(group)
        if idx is None:
            return None

    def find(sub):
        for op, av in sub:
            name = str(op)
            if name == "SUBPATTERN":
                if av[0] == idx:
                    return av[3]
                r = find(av[3])
                if r is not None:
                    return r
            elif name in ("MAX_REPEAT", "MIN_REPEAT"):
                r = find(av[2])
                if r is not None:
                    return r
            elif name == "BRANCH":
                for b in av[1]:
                    r = find(b)
                    if r is not None:
                        return r
            elif name == "GROUPREF_EXISTS":
                for b in av[1:]:
                    if b is not None:
                        r = find(b)
                        if r is not None:
                            return r
        return None

    return find(p)


def group_digits_only(pattern: str, group) -> bool:
    sub = group_sub(pattern, group)
    return sub is not None and _digits_only(sub) and sub.getwidth()[0] >= 1


def group_max_value(pattern: str, group) -> int | None:
    """Largest integer a digits-only group can denote (by max width)."""
    sub = group_sub(pattern, group)
    if sub is None or not _digits_only(sub):
        return None
    w = sub.getwidth()[1]
    if w > 18:
        return None
    return 10**w - 1


def group_literal_alternatives(pattern: str, group) -> set[str] | None:
    """If the group is an alternation of literal words, return them (lower-cased)."""
    sub = group_sub(pattern, group)
    if sub is None:
        return None
    words: set[str] = set()

    def lit(seq):
        s = ""
        for op, av in seq:
            name = str(op)
            if name == "LITERAL":
                s += chr(av)
            elif name == "SUBPATTERN":
                r = lit(av[3])
                if r is None:
                    return None
                s += r
            elif name == "IN" and len(av) in (1, 2) and all(str(i) == "LITERAL" for i, _ in av):
                # case-insensitive single letter [Jj]
                s += chr(av[0][1])
            else:
                return None
        return s

    def alts(seq):
        if len(seq) == 1 and str(seq[0][0]) == "BRANCH":
            for b in seq[0][1][1]:
                if not alts(b):
                    return False
            return True
        if len(seq) == 1 and str(seq[0][0]) == "SUBPATTERN":
            return alts(seq[0][1][3])
        w = lit(seq)
        if w is None:
            return False
        words.add(w.lower())
        return True

    return words if alts(sub) else None


def can_match_char(pattern: str, ch: str) -> bool:
    """Conservative: could a match of pattern contain character ch?  (negated classes, ANY -> yes)"""
    def go(sub):
        for op, av in sub:
            name = str(op)
            if name == "LITERAL":
                if chr(av) == ch:
                    return True
            elif name == "NOT_LITERAL":
                if chr(av) != ch:
                    return True
            elif name == "ANY":
                if ch != "\n":
                    return True
            elif name == "IN":
                neg = any(str(i) == "NEGATE" for i, _ in av)
                hit = False
                for iop, iav in av:
                    n = str(iop)
                    if n == "LITERAL" and chr(iav) == ch:
                        hit = True
                    elif n == "RANGE" and iav[0] <= ord(ch) <= iav[1]:
                        hit = True
                    elif n == "CATEGORY":
                        c = str(iav)
                        if c == "CATEGORY_DIGIT" and ch.isdigit():
                            hit = True
                        elif c == "CATEGORY_SPACE" and ch.isspace():
                            hit = True
                        elif c == "CATEGORY_WORD" and (ch.isalnum() or ch == "_"):
                            hit = True
                        elif c.startswith("CATEGORY_NOT"):
                            hit = True
                if hit != neg:
                    return True
            elif name in ("MAX_REPEAT", "MIN_REPEAT"):
                if go(av[2]):
                    return True
            elif name == "SUBPATTERN":
                if go(av[3]):
                    return True
            elif name == "BRANCH":
                if any(go(b) for b in av[1]):
                    return True
            elif name == "GROUPREF_EXISTS":
                if any(go(b) for b in av[1:] if b is not None):
                    return True
        return False

    return go(parse(pattern))
